//! Native replayer: runs coset's real public API on concrete inputs and prints the observable
//! outcome in a canonical text form.  Not a deciding step: it confirms (or refutes) what the
//! solver-based engines predicted, validates the MIR interpreter against the real build, and
//! cross-checks the byte-layer stubs against real ciborium.
//!
//! Protocol: one command per stdin line, one result line per command.
use coset::cbor::value::Value;
use coset::*;
use std::io::{BufRead, Write};

fn err_name(e: &CoseError) -> String {
    match e {
        CoseError::DecodeFailed(_) => "DecodeFailed".into(),
        CoseError::DuplicateMapKey => "DuplicateMapKey".into(),
        CoseError::EncodeFailed => "EncodeFailed".into(),
        CoseError::ExtraneousData => "ExtraneousData".into(),
        CoseError::OutOfRangeIntegerValue => "OutOfRangeIntegerValue".into(),
        CoseError::UnexpectedItem(a, b) => format!("UnexpectedItem({:?}, {:?})", a, b),
        CoseError::UnregisteredIanaValue => "UnregisteredIanaValue".into(),
        CoseError::UnregisteredIanaNonPrivateValue => "UnregisteredIanaNonPrivateValue".into(),
    }
}

fn show<T: core::fmt::Debug>(r: Result<T, CoseError>) -> String {
    match r {
        Ok(v) => format!("OK {:?}", v),
        Err(e) => format!("ERR {}", err_name(&e)),
    }
}

fn parse_value(b: &[u8]) -> Result<Value, CoseError> {
    Value::from_slice(b)
}

/// Canonical text of a Value (floats as bit patterns so NaN payloads are visible).
fn value_text(v: &Value) -> String {
    match v {
        Value::Integer(i) => format!("i{}", i128::from(*i)),
        Value::Bytes(b) => format!("h'{}'", hex::encode(b)),
        Value::Float(f) => format!("f{:016x}", f.to_bits()),
        Value::Text(t) => format!("{:?}", t),
        Value::Bool(b) => format!("{}", b),
        Value::Null => "null".into(),
        Value::Tag(t, inner) => format!("{}({})", t, value_text(inner)),
        Value::Array(a) => format!("[{}]", a.iter().map(value_text).collect::<Vec<_>>().join(", ")),
        Value::Map(m) => format!(
            "{{{}}}",
            m.iter().map(|(k, v)| format!("{}: {}", value_text(k), value_text(v))).collect::<Vec<_>>().join(", ")
        ),
        _ => "other".into(),
    }
}

macro_rules! by_type {
    ($name:expr, $f:ident, $($arg:expr),*) => {
        match $name {
            "Label" => $f::<Label>($($arg),*),
            "RegisteredLabel<HeaderParameter>" => $f::<RegisteredLabel<iana::HeaderParameter>>($($arg),*),
            "RegisteredLabel<KeyType>" => $f::<RegisteredLabel<iana::KeyType>>($($arg),*),
            "RegisteredLabel<KeyOperation>" => $f::<RegisteredLabel<iana::KeyOperation>>($($arg),*),
            "RegisteredLabel<CoapContentFormat>" => $f::<RegisteredLabel<iana::CoapContentFormat>>($($arg),*),
            "RegisteredLabelWithPrivate<Algorithm>" => $f::<RegisteredLabelWithPrivate<iana::Algorithm>>($($arg),*),
            "RegisteredLabelWithPrivate<CwtClaimName>" => $f::<RegisteredLabelWithPrivate<iana::CwtClaimName>>($($arg),*),
            "Header" => $f::<Header>($($arg),*),
            "ProtectedHeader" => $f::<ProtectedHeader>($($arg),*),
            "CoseSignature" => $f::<CoseSignature>($($arg),*),
            "CoseSign" => $f::<CoseSign>($($arg),*),
            "CoseSign1" => $f::<CoseSign1>($($arg),*),
            "CoseMac" => $f::<CoseMac>($($arg),*),
            "CoseMac0" => $f::<CoseMac0>($($arg),*),
            "CoseEncrypt" => $f::<CoseEncrypt>($($arg),*),
            "CoseEncrypt0" => $f::<CoseEncrypt0>($($arg),*),
            "CoseRecipient" => $f::<CoseRecipient>($($arg),*),
            "CoseKey" => $f::<CoseKey>($($arg),*),
            "CoseKeySet" => $f::<CoseKeySet>($($arg),*),
            "ClaimsSet" => $f::<cwt::ClaimsSet>($($arg),*),
            "PartyInfo" => $f::<PartyInfo>($($arg),*),
            "SuppPubInfo" => $f::<SuppPubInfo>($($arg),*),
            "CoseKdfContext" => $f::<CoseKdfContext>($($arg),*),
            other => format!("BADTYPE {}", other),
        }
    };
}

macro_rules! by_tagged_type {
    ($name:expr, $f:ident, $($arg:expr),*) => {
        match $name {
            "CoseSign" => $f::<CoseSign>($($arg),*),
            "CoseSign1" => $f::<CoseSign1>($($arg),*),
            "CoseMac" => $f::<CoseMac>($($arg),*),
            "CoseMac0" => $f::<CoseMac0>($($arg),*),
            "CoseEncrypt" => $f::<CoseEncrypt>($($arg),*),
            "CoseEncrypt0" => $f::<CoseEncrypt0>($($arg),*),
            other => format!("BADTYPE {}", other),
        }
    };
}

fn op_decode<T: CborSerializable + core::fmt::Debug>(b: &[u8]) -> String {
    show(T::from_slice(b))
}

fn op_decodev<T: AsCborValue + core::fmt::Debug>(b: &[u8]) -> String {
    match parse_value(b) {
        Ok(v) => show(T::from_cbor_value(v)),
        Err(e) => format!("PARSEERR {}", err_name(&e)),
    }
}

fn op_tagged<T: TaggedCborSerializable + core::fmt::Debug>(b: &[u8]) -> String {
    show(T::from_tagged_slice(b))
}

/// decode, encode, decode again, encode again.
fn op_roundtrip<T: CborSerializable + core::fmt::Debug + Clone + PartialEq>(b: &[u8]) -> String {
    let v = match T::from_slice(b) {
        Ok(v) => v,
        Err(e) => return format!("ERR {}", err_name(&e)),
    };
    let b1 = match v.clone().to_vec() {
        Ok(x) => x,
        Err(e) => return format!("ENCERR {} {:?}", err_name(&e), v),
    };
    let v2 = match T::from_slice(&b1) {
        Ok(v) => v,
        Err(e) => return format!("REDECERR {} {}", err_name(&e), hex::encode(&b1)),
    };
    let b2 = match v2.clone().to_vec() {
        Ok(x) => x,
        Err(e) => return format!("REENCERR {}", err_name(&e)),
    };
    format!("OK eq={} fixed={} b1={} v={:?}", v == v2, b1 == b2, hex::encode(&b1), v)
}

fn op_encode<T: CborSerializable + core::fmt::Debug>(b: &[u8]) -> String {
    match T::from_slice(b) {
        Ok(v) => match v.to_vec() {
            Ok(x) => format!("OK {}", hex::encode(x)),
            Err(e) => format!("ENCERR {}", err_name(&e)),
        },
        Err(e) => format!("ERR {}", err_name(&e)),
    }
}

fn op_encode_tagged<T: TaggedCborSerializable + CborSerializable + core::fmt::Debug>(b: &[u8]) -> String {
    match T::from_slice(b) {
        Ok(v) => match v.to_tagged_vec() {
            Ok(x) => format!("OK {}", hex::encode(x)),
            Err(e) => format!("ENCERR {}", err_name(&e)),
        },
        Err(e) => format!("ERR {}", err_name(&e)),
    }
}

fn unhex(s: &str) -> Vec<u8> {
    if s == "-" {
        return vec![];
    }
    hex::decode(s).expect("hex")
}

fn run(line: &str) -> String {
    let p: Vec<&str> = line.split_whitespace().collect();
    if p.is_empty() {
        return "EMPTY".into();
    }
    match p[0] {
        "ping" => "pong".into(),
        "parse" => match parse_value(&unhex(p[1])) {
            Ok(v) => format!("OK {}", value_text(&v)),
            Err(e) => format!("ERR {}", err_name(&e)),
        },
        "reenc" => match parse_value(&unhex(p[1])) {
            Ok(v) => format!("OK {}", hex::encode(v.to_vec().unwrap())),
            Err(e) => format!("ERR {}", err_name(&e)),
        },
        "decode" => by_type!(p[1], op_decode, &unhex(p[2])),
        "decodev" => by_type!(p[1], op_decodev, &unhex(p[2])),
        "tagged" => by_tagged_type!(p[1], op_tagged, &unhex(p[2])),
        "roundtrip" => by_type!(p[1], op_roundtrip, &unhex(p[2])),
        "encode" => by_type!(p[1], op_encode, &unhex(p[2])),
        "encode_tagged" => by_tagged_type!(p[1], op_encode_tagged, &unhex(p[2])),
        "ops" => ops::run(&p[1..]),
        other => format!("BADOP {}", other),
    }
}

mod ops;

fn main() {
    // panics are caught and reported on stdout; keep stderr quiet
    let args: Vec<String> = std::env::args().collect();
    if args.len() == 3 && args[1] == "--nested-child" {
        ops::nested_child(args[2].parse().unwrap());
        return;
    }
    std::panic::set_hook(Box::new(|_| {}));
    let stdin = std::io::stdin();
    let stdout = std::io::stdout();
    let mut out = stdout.lock();
    for line in stdin.lock().lines() {
        let line = line.unwrap();
        let r = std::panic::catch_unwind(|| run(&line));
        let text = match r {
            Ok(s) => s,
            Err(p) => {
                let msg = p
                    .downcast_ref::<String>()
                    .cloned()
                    .or_else(|| p.downcast_ref::<&str>().map(|s| s.to_string()))
                    .unwrap_or_default();
                format!("PANIC {}", msg.replace('\n', " "))
            }
        };
        writeln!(out, "{}", text.replace('\n', " ")).unwrap();
        out.flush().unwrap();
    }
}
