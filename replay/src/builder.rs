//! Native replay of a builder call sequence explored by mirsym's builder job:
//! `builder <Type> <call>;<call>;...` with `<call> = name[:arg[,arg]]`.
//! Argument forms: hex bytes (`-` = empty), `i<int>`, `t<hex utf8>`, values `n` | `v<int>`,
//! headers `h-` (empty) | `h<kid hex>`, nonce `ni<int>` | `nb<hex>`.
//! Prints the Debug form of the built value (`PANIC` is produced by the caller on a panic).
use coset::cbor::value::Value;
use coset::iana::EnumI64;
use coset::*;

fn unhex(s: &str) -> Vec<u8> {
    if s == "-" || s.is_empty() {
        return vec![];
    }
    hex::decode(s).expect("hex")
}
fn int(s: &str) -> i64 {
    s[1..].parse().unwrap()
}
fn text(s: &str) -> String {
    String::from_utf8(unhex(&s[1..])).unwrap()
}
fn value(s: &str) -> Value {
    if s == "n" {
        Value::Null
    } else {
        Value::from(s[1..].parse::<i64>().unwrap())
    }
}
fn header(s: &str) -> Header {
    let k = unhex(&s[1..]);
    if k.is_empty() {
        Header::default()
    } else {
        HeaderBuilder::new().key_id(k).build()
    }
}
fn sig(a: &[&str]) -> CoseSignature {
    CoseSignatureBuilder::new().protected(header(a[0])).signature(unhex(a[1])).build()
}
fn rcpt(a: &[&str]) -> CoseRecipient {
    CoseRecipientBuilder::new().protected(header(a[0])).build()
}

macro_rules! message {
    ($b:ty, $calls:expr, { $($name:literal => |$bb:ident, $a:ident| $e:expr),* }) => {{
        let mut b = <$b>::new();
        for (name, a) in $calls.iter() {
            let a: &[&str] = a;
            b = match *name {
                "protected" => b.protected(header(a[0])),
                "unprotected" => b.unprotected(header(a[0])),
                $($name => { let $bb = b; let $a = a; $e })*
                other => return format!("BADCALL {}", other),
            };
        }
        format!("{:?}", b.build())
    }};
}

pub fn run(p: &[&str]) -> String {
    let script = if p.len() > 1 { p[1] } else { "-" };
    let calls: Vec<(&str, Vec<&str>)> = if script == "-" {
        vec![]
    } else {
        script
            .split(';')
            .map(|c| {
                let mut it = c.splitn(2, ':');
                let name = it.next().unwrap();
                let args: Vec<&str> = it.next().map(|a| a.split(',').collect()).unwrap_or_default();
                (name, args)
            })
            .collect()
    };
    match p[0] {
        "Header" => {
            let mut b = HeaderBuilder::new();
            for (name, a) in calls.iter() {
                b = match *name {
                    "algorithm" => b.algorithm(iana::Algorithm::from_i64(int(a[0])).unwrap()),
                    "add_critical" => b.add_critical(iana::HeaderParameter::from_i64(int(a[0])).unwrap()),
                    "add_critical_label" => b.add_critical_label(RegisteredLabel::Text(text(a[0]))),
                    "content_format" => b.content_format(iana::CoapContentFormat::from_i64(int(a[0])).unwrap()),
                    "content_type" => b.content_type(text(a[0])),
                    "key_id" => b.key_id(unhex(a[0])),
                    "iv" => b.iv(unhex(a[0])),
                    "partial_iv" => b.partial_iv(unhex(a[0])),
                    "add_counter_signature" => b.add_counter_signature(sig(a)),
                    "value" => b.value(int(a[0]), value(a[1])),
                    "text_value" => b.text_value(text(a[0]), value(a[1])),
                    other => return format!("BADCALL {}", other),
                };
            }
            format!("{:?}", b.build())
        }
        "CoseKey" => {
            let mut b = CoseKeyBuilder::new();
            for (name, a) in calls.iter() {
                b = match *name {
                    "kty" => b.kty(KeyType::Text(text(a[0]))),
                    "key_type" => b.key_type(iana::KeyType::from_i64(int(a[0])).unwrap()),
                    "key_id" => b.key_id(unhex(a[0])),
                    "base_iv" => b.base_iv(unhex(a[0])),
                    "algorithm" => b.algorithm(iana::Algorithm::from_i64(int(a[0])).unwrap()),
                    "add_key_op" => b.add_key_op(iana::KeyOperation::from_i64(int(a[0])).unwrap()),
                    "param" => b.param(int(a[0]), value(a[1])),
                    other => return format!("BADCALL {}", other),
                };
            }
            format!("{:?}", b.build())
        }
        "ClaimsSet" => {
            let mut b = cwt::ClaimsSetBuilder::new();
            for (name, a) in calls.iter() {
                b = match *name {
                    "issuer" => b.issuer(text(a[0])),
                    "subject" => b.subject(text(a[0])),
                    "audience" => b.audience(text(a[0])),
                    "expiration_time" => b.expiration_time(cwt::Timestamp::WholeSeconds(int(a[0]))),
                    "not_before" => b.not_before(cwt::Timestamp::WholeSeconds(int(a[0]))),
                    "issued_at" => b.issued_at(cwt::Timestamp::WholeSeconds(int(a[0]))),
                    "cwt_id" => b.cwt_id(unhex(a[0])),
                    "claim" => b.claim(iana::CwtClaimName::from_i64(int(a[0])).unwrap(), value(a[1])),
                    "text_claim" => b.text_claim(text(a[0]), value(a[1])),
                    "private_claim" => b.private_claim(int(a[0]), value(a[1])),
                    other => return format!("BADCALL {}", other),
                };
            }
            format!("{:?}", b.build())
        }
        "PartyInfo" => {
            let mut b = PartyInfoBuilder::new();
            for (name, a) in calls.iter() {
                b = match *name {
                    "identity" => b.identity(unhex(a[0])),
                    "other" => b.other(unhex(a[0])),
                    "nonce" => b.nonce(if a[0].starts_with("ni") { Nonce::Integer(a[0][2..].parse().unwrap()) } else { Nonce::Bytes(unhex(&a[0][2..])) }),
                    other => return format!("BADCALL {}", other),
                };
            }
            format!("{:?}", b.build())
        }
        "SuppPubInfo" => {
            let mut b = SuppPubInfoBuilder::new();
            for (name, a) in calls.iter() {
                b = match *name {
                    "key_data_length" => b.key_data_length(a[0][1..].parse().unwrap()),
                    "protected" => b.protected(header(a[0])),
                    "other" => b.other(unhex(a[0])),
                    other => return format!("BADCALL {}", other),
                };
            }
            format!("{:?}", b.build())
        }
        "CoseKdfContext" => {
            let mut b = CoseKdfContextBuilder::new();
            for (name, a) in calls.iter() {
                b = match *name {
                    "algorithm" => b.algorithm(iana::Algorithm::from_i64(int(a[0])).unwrap()),
                    "party_u_info" => b.party_u_info(PartyInfoBuilder::new().identity(unhex(a[0])).build()),
                    "party_v_info" => b.party_v_info(PartyInfoBuilder::new().identity(unhex(a[0])).build()),
                    "supp_pub_info" => b.supp_pub_info(SuppPubInfoBuilder::new().key_data_length(a[0][1..].parse().unwrap()).build()),
                    "add_supp_priv_info" => b.add_supp_priv_info(unhex(a[0])),
                    other => return format!("BADCALL {}", other),
                };
            }
            format!("{:?}", b.build())
        }
        "CoseSignature" => message!(CoseSignatureBuilder, calls, { "signature" => |b, a| b.signature(unhex(a[0])) }),
        "CoseSign1" => message!(CoseSign1Builder, calls, { "signature" => |b, a| b.signature(unhex(a[0])), "payload" => |b, a| b.payload(unhex(a[0])) }),
        "CoseSign" => message!(CoseSignBuilder, calls, { "payload" => |b, a| b.payload(unhex(a[0])), "add_signature" => |b, a| b.add_signature(sig(a)) }),
        "CoseMac0" => message!(CoseMac0Builder, calls, { "tag" => |b, a| b.tag(unhex(a[0])), "payload" => |b, a| b.payload(unhex(a[0])) }),
        "CoseMac" => message!(CoseMacBuilder, calls, { "tag" => |b, a| b.tag(unhex(a[0])), "payload" => |b, a| b.payload(unhex(a[0])), "add_recipient" => |b, a| b.add_recipient(rcpt(a)) }),
        "CoseEncrypt0" => message!(CoseEncrypt0Builder, calls, { "ciphertext" => |b, a| b.ciphertext(unhex(a[0])) }),
        "CoseEncrypt" => message!(CoseEncryptBuilder, calls, { "ciphertext" => |b, a| b.ciphertext(unhex(a[0])), "add_recipient" => |b, a| b.add_recipient(rcpt(a)) }),
        "CoseRecipient" => message!(CoseRecipientBuilder, calls, { "ciphertext" => |b, a| b.ciphertext(unhex(a[0])), "add_recipient" => |b, a| b.add_recipient(rcpt(a)) }),
        other => format!("BADTYPE {}", other),
    }
}
