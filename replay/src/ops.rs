//! Operations beyond plain decoding (to-be-signed data, verification helpers, builders).
pub fn run(_p: &[&str]) -> String {
    "BADOP ops".into()
}
