//! Operations beyond plain decoding: struct-literal values, to-be-signed data, verification
//! helpers, builder call sequences.
use coset::cbor::value::Value;
use coset::*;

#[path = "history.rs"]
pub mod history;
#[path = "builder.rs"]
pub mod builder;

fn unhex(s: &str) -> Vec<u8> {
    if s == "-" || s.is_empty() {
        return vec![];
    }
    hex::decode(s).expect("hex")
}

fn err_name(e: &CoseError) -> &'static str {
    match e {
        CoseError::DecodeFailed(_) => "DecodeFailed",
        CoseError::DuplicateMapKey => "DuplicateMapKey",
        CoseError::EncodeFailed => "EncodeFailed",
        CoseError::ExtraneousData => "ExtraneousData",
        CoseError::OutOfRangeIntegerValue => "OutOfRangeIntegerValue",
        CoseError::UnexpectedItem(_, _) => "UnexpectedItem",
        CoseError::UnregisteredIanaValue => "UnregisteredIanaValue",
        CoseError::UnregisteredIanaNonPrivateValue => "UnregisteredIanaNonPrivateValue",
    }
}

fn enc<T: CborSerializable>(v: T) -> String {
    match v.to_vec() {
        Ok(b) => format!("OK {}", hex::encode(b)),
        Err(e) => format!("ERR {}", err_name(&e)),
    }
}

fn flag<'a>(flags: &'a [&'a str], name: &str) -> Option<&'a str> {
    for f in flags {
        if *f == name {
            return Some("");
        }
        if let Some(rest) = f.strip_prefix(name) {
            if let Some(v) = rest.strip_prefix('=') {
                return Some(v);
            }
        }
    }
    None
}

fn labels(spec: &str) -> Vec<Label> {
    if spec == "-" {
        return vec![];
    }
    spec.split(',')
        .map(|s| {
            let (k, rest) = s.split_at(1);
            match k {
                "t" => Label::Text(String::from_utf8(unhex(rest)).unwrap()),
                _ => Label::Int(rest.parse().unwrap()),
            }
        })
        .collect()
}

fn claim_names(spec: &str) -> Vec<cwt::ClaimName> {
    use coset::iana::EnumI64;
    if spec == "-" {
        return vec![];
    }
    spec.split(',')
        .map(|s| {
            let (k, rest) = s.split_at(1);
            match k {
                "t" => cwt::ClaimName::Text(String::from_utf8(unhex(rest)).unwrap()),
                "a" => cwt::ClaimName::Assigned(iana::CwtClaimName::from_i64(rest.parse().unwrap()).unwrap()),
                _ => cwt::ClaimName::PrivateUse(rest.parse().unwrap()),
            }
        })
        .collect()
}

/// `encode_literal <T> <flags> <labels>`: a struct literal with the named typed fields populated
/// and the given extra labels (all with value null), encoded with to_vec.
fn encode_literal(p: &[&str]) -> String {
    let flags: Vec<&str> = if p[1] == "-" { vec![] } else { p[1].split(',').collect() };
    match p[0] {
        "Header" => {
            let h = Header {
                alg: flag(&flags, "alg").map(|_| Algorithm::Assigned(iana::Algorithm::ES256)),
                crit: if flag(&flags, "crit").is_some() {
                    vec![RegisteredLabel::Assigned(iana::HeaderParameter::Alg)]
                } else {
                    vec![]
                },
                content_type: flag(&flags, "ct").map(|_| ContentType::Assigned(iana::CoapContentFormat::Cbor)),
                key_id: flag(&flags, "kid").map(unhex).unwrap_or_default(),
                iv: flag(&flags, "iv").map(unhex).unwrap_or_default(),
                partial_iv: flag(&flags, "piv").map(unhex).unwrap_or_default(),
                counter_signatures: vec![CoseSignature::default(); flag(&flags, "sigs").map(|n| n.parse().unwrap()).unwrap_or(0)],
                rest: labels(p[2]).into_iter().map(|l| (l, Value::Null)).collect(),
            };
            enc(h)
        }
        "CoseKey" => {
            let mut k = CoseKey {
                kty: KeyType::Assigned(iana::KeyType::EC2),
                key_id: flag(&flags, "kid").map(unhex).unwrap_or_default(),
                alg: flag(&flags, "alg").map(|_| Algorithm::Assigned(iana::Algorithm::ES256)),
                base_iv: flag(&flags, "biv").map(unhex).unwrap_or_default(),
                params: labels(p[2]).into_iter().map(|l| (l, Value::Null)).collect(),
                ..Default::default()
            };
            if flag(&flags, "ops").is_some() {
                k.key_ops.insert(KeyOperation::Assigned(iana::KeyOperation::Sign));
            }
            if let Some(ord) = flag(&flags, "canon") {
                k.canonicalize(if ord == "lex" { CborOrdering::Lexicographic } else { CborOrdering::LengthFirstLexicographic });
            }
            enc(k)
        }
        "ClaimsSet" => {
            let c = cwt::ClaimsSet {
                issuer: flag(&flags, "iss").map(|h| String::from_utf8(unhex(h)).unwrap()),
                expiration_time: flag(&flags, "exp").map(|n| cwt::Timestamp::WholeSeconds(n.parse().unwrap())),
                cwt_id: flag(&flags, "cti").map(unhex),
                rest: claim_names(p[2]).into_iter().map(|l| (l, Value::Null)).collect(),
                ..Default::default()
            };
            enc(c)
        }
        other => format!("BADTYPE {}", other),
    }
}

fn cmp_canonical(p: &[&str]) -> String {
    let l = labels(p[0]);
    format!("{:?}", l[0].cmp_canonical(&l[1]))
}

pub fn run(p: &[&str]) -> String {
    match p[0] {
        "encode_literal" => encode_literal(&p[1..]),
        "cmp_canonical" => cmp_canonical(&p[1..]),
        "structures" => structures(&p[1..]),
        "api" => api(&p[1..]),
        "encode_built" | "roundtrip_built" => built(p[0], &p[1..]),
        "nested_sign1" => nested_sign1(&p[1..]),
        "spine" => spine(&p[1..]),
        "cmp" => { let l = labels(p[1]); format!("{:?}", l[0].cmp(&l[1])) }
        "canonical_check" => canonical_check(&p[1..]),
        "free_structures" => free_structures(&p[1..]),
        "history" => history::run(&p[1..]),
        "builder" => builder::run(&p[1..]),
        other => format!("BADOP {}", other),
    }
}

// ------------------------------------------------------------------------------------------
// Native differential replays for the structure / history jobs.  The reference side is built
// directly as a ciborium Value from RFC 8152's definitions and serialised by ciborium.

fn ser(v: &Value) -> Vec<u8> {
    let mut out = Vec::new();
    coset::cbor::ser::into_writer(v, &mut out).unwrap();
    out
}

fn reference(ctx: &str, protected: &[Vec<u8>], tail: &[&[u8]]) -> Vec<u8> {
    let mut a = vec![Value::Text(ctx.to_string())];
    for p in protected {
        a.push(Value::Bytes(p.clone()));
    }
    for t in tail {
        a.push(Value::Bytes(t.to_vec()));
    }
    ser(&Value::Array(a))
}

/// What RFC 8152 puts in the protected slot for this in-memory protected header.
fn prot_bytes(p: &ProtectedHeader) -> Vec<u8> {
    match &p.original_data {
        Some(d) => d.clone(),
        None => {
            if p.header == Header::default() {
                vec![]
            } else {
                p.header.clone().to_vec().unwrap()
            }
        }
    }
}

fn strip_header(h: &mut Header) {
    for s in h.counter_signatures.iter_mut() {
        strip_sig(s);
    }
}
fn strip_prot(p: &mut ProtectedHeader) {
    p.original_data = None;
    strip_header(&mut p.header);
}
fn strip_sig(s: &mut CoseSignature) {
    strip_prot(&mut s.protected);
    strip_header(&mut s.unprotected);
}
fn strip_rcpt(r: &mut CoseRecipient) {
    strip_prot(&mut r.protected);
    strip_header(&mut r.unprotected);
    for x in r.recipients.iter_mut() {
        strip_rcpt(x);
    }
}


fn catch<F: FnOnce() -> R + std::panic::UnwindSafe, R>(f: F) -> Option<R> {
    std::panic::catch_unwind(f).ok()
}

fn structures(p: &[&str]) -> String {
    let built = p[1] == "built";
    let data = unhex(p[2]);
    // optional: lengths of the external aadv and of the detached payload (filled with a constant byte)
    let aad_buf: Vec<u8> = if p.len() > 3 { vec![0xa5; p[3].parse().unwrap()] } else { b"external-aad".to_vec() };
    let det_buf: Vec<u8> = if p.len() > 4 { vec![0x5a; p[4].parse().unwrap()] } else { b"detached-payload".to_vec() };
    let aadv: &[u8] = &aad_buf;
    let detv: &[u8] = &det_buf;
    let mut bad: Vec<String> = vec![];
    macro_rules! check {
        ($what:expr, $got:expr, $want:expr) => {
            if $got != $want {
                bad.push(format!("{} got={} want={}", $what, hex::encode(&$got), hex::encode(&$want)));
            }
        };
    }
    match p[0] {
        "CoseSign1" => {
            let mut x = match CoseSign1::from_slice(&data) { Ok(x) => x, Err(_) => return "REJECTED".into() };
            if built { strip_prot(&mut x.protected); strip_header(&mut x.unprotected); }
            let pb = prot_bytes(&x.protected);
            let emb = x.payload.clone().unwrap_or_default();
            let want = reference("Signature1", &[pb.clone()], &[aadv, &emb]);
            check!("tbs_data", x.tbs_data(aadv), want);
            let mut seen = (vec![], vec![]);
            let _ = x.verify_signature(aadv, |s, d| -> Result<(), ()> { seen = (s.to_vec(), d.to_vec()); Ok(()) });
            check!("verify_signature.data", seen.1, want);
            check!("verify_signature.sig", seen.0, x.signature);
            let y = x.clone();
            let r = catch(move || y.tbs_detached_data(detv, aadv));
            if x.payload.is_some() {
                if r.is_some() { bad.push("tbs_detached_data accepted embedded payload".into()); }
            } else {
                let wantd = reference("Signature1", &[pb], &[aadv, detv]);
                match r { Some(g) => check!("tbs_detached_data", g, wantd), None => bad.push("tbs_detached_data panicked".into()) }
            }
        }
        "CoseSign" => {
            let mut x = match CoseSign::from_slice(&data) { Ok(x) => x, Err(_) => return "REJECTED".into() };
            if built { strip_prot(&mut x.protected); strip_header(&mut x.unprotected); for s in x.signatures.iter_mut() { strip_sig(s); } }
            let pb = prot_bytes(&x.protected);
            let emb = x.payload.clone().unwrap_or_default();
            for (i, s) in x.signatures.iter().enumerate() {
                let want = reference("Signature", &[pb.clone(), prot_bytes(&s.protected)], &[aadv, &emb]);
                check!(format!("tbs_data[{}]", i), x.tbs_data(aadv, s), want);
                let mut seen = (vec![], vec![]);
                let _ = x.verify_signature(i, aadv, |sg, d| -> Result<(), ()> { seen = (sg.to_vec(), d.to_vec()); Ok(()) });
                check!(format!("verify_signature[{}].data", i), seen.1, want);
                check!(format!("verify_signature[{}].sig", i), seen.0, s.signature);
                if x.payload.is_none() {
                    let wantd = reference("Signature", &[pb.clone(), prot_bytes(&s.protected)], &[aadv, detv]);
                    check!(format!("tbs_detached_data[{}]", i), x.tbs_detached_data(detv, aadv, s), wantd);
                }
            }
            let y = x.clone();
            let n = x.signatures.len();
            if catch(move || y.verify_signature(n, aadv, |_, _| -> Result<(), ()> { Ok(()) })).is_some() {
                bad.push("verify_signature(len) did not panic".into());
            }
        }
        "CoseMac0" | "CoseMac" => {
            let (prot, payload, tag, ctxs): (ProtectedHeader, Option<Vec<u8>>, Vec<u8>, &str);
            let mut seen = (vec![], vec![]);
            let called: Option<()>;
            if p[0] == "CoseMac0" {
                let mut x = match CoseMac0::from_slice(&data) { Ok(x) => x, Err(_) => return "REJECTED".into() };
                if built { strip_prot(&mut x.protected); }
                prot = x.protected.clone(); payload = x.payload.clone(); tag = x.tag.clone(); ctxs = "MAC0";
                let mut s2 = (vec![], vec![]);
                called = catch(std::panic::AssertUnwindSafe(|| { let _ = x.verify_tag(aadv, |t, d| -> Result<(), ()> { s2 = (t.to_vec(), d.to_vec()); Ok(()) }); }));
                seen = s2;
            } else {
                let mut x = match CoseMac::from_slice(&data) { Ok(x) => x, Err(_) => return "REJECTED".into() };
                if built { strip_prot(&mut x.protected); }
                prot = x.protected.clone(); payload = x.payload.clone(); tag = x.tag.clone(); ctxs = "MAC";
                let mut s2 = (vec![], vec![]);
                called = catch(std::panic::AssertUnwindSafe(|| { let _ = x.verify_tag(aadv, |t, d| -> Result<(), ()> { s2 = (t.to_vec(), d.to_vec()); Ok(()) }); }));
                seen = s2;
            }
            match payload {
                None => if called.is_some() { bad.push("verify_tag without payload did not panic".into()); },
                Some(pl) => {
                    if called.is_none() { bad.push("verify_tag panicked".into()); }
                    let want = reference(ctxs, &[prot_bytes(&prot)], &[aadv, &pl]);
                    check!("verify_tag.data", seen.1, want);
                    check!("verify_tag.tag", seen.0, tag);
                }
            }
        }
        "CoseEncrypt0" | "CoseEncrypt" | "CoseRecipient" => {
            let names = [("Encrypt", EncryptionContext::CoseEncrypt), ("Encrypt0", EncryptionContext::CoseEncrypt0),
                         ("Enc_Recipient", EncryptionContext::EncRecipient), ("Mac_Recipient", EncryptionContext::MacRecipient),
                         ("Rec_Recipient", EncryptionContext::RecRecipient)];
            if p[0] == "CoseRecipient" {
                let mut x = match CoseRecipient::from_slice(&data) { Ok(x) => x, Err(_) => return "REJECTED".into() };
                if built { strip_rcpt(&mut x); }
                for (i, (name, c)) in names.iter().enumerate() {
                    let mut seen = (vec![], vec![]);
                    let r = catch(std::panic::AssertUnwindSafe(|| { let _ = x.decrypt(*c, aadv, |ct, d| -> Result<Vec<u8>, ()> { seen = (ct.to_vec(), d.to_vec()); Ok(vec![]) }); }));
                    let refuse = x.ciphertext.is_none() || i < 2;
                    if refuse { if r.is_some() { bad.push(format!("decrypt({}) did not refuse", name)); } continue; }
                    if r.is_none() { bad.push(format!("decrypt({}) panicked", name)); continue; }
                    let want = reference(name, &[prot_bytes(&x.protected)], &[aadv]);
                    check!(format!("decrypt({}).aad", name), seen.1, want);
                    check!(format!("decrypt({}).ct", name), seen.0, x.ciphertext.clone().unwrap());
                }
            } else {
                let (prot, ct, name): (ProtectedHeader, Option<Vec<u8>>, &str);
                let mut seen = (vec![], vec![]);
                let r;
                if p[0] == "CoseEncrypt0" {
                    let mut x = match CoseEncrypt0::from_slice(&data) { Ok(x) => x, Err(_) => return "REJECTED".into() };
                    if built { strip_prot(&mut x.protected); }
                    prot = x.protected.clone(); ct = x.ciphertext.clone(); name = "Encrypt0";
                    let mut s2 = (vec![], vec![]);
                    r = catch(std::panic::AssertUnwindSafe(|| { let _ = x.decrypt(aadv, |c, d| -> Result<Vec<u8>, ()> { s2 = (c.to_vec(), d.to_vec()); Ok(vec![]) }); }));
                    seen = s2;
                } else {
                    let mut x = match CoseEncrypt::from_slice(&data) { Ok(x) => x, Err(_) => return "REJECTED".into() };
                    if built { strip_prot(&mut x.protected); }
                    prot = x.protected.clone(); ct = x.ciphertext.clone(); name = "Encrypt";
                    let mut s2 = (vec![], vec![]);
                    r = catch(std::panic::AssertUnwindSafe(|| { let _ = x.decrypt(aadv, |c, d| -> Result<Vec<u8>, ()> { s2 = (c.to_vec(), d.to_vec()); Ok(vec![]) }); }));
                    seen = s2;
                }
                match ct {
                    None => if r.is_some() { bad.push("decrypt without ciphertext did not panic".into()); },
                    Some(c) => {
                        if r.is_none() { bad.push("decrypt panicked".into()); }
                        let want = reference(name, &[prot_bytes(&prot)], &[aadv]);
                        check!("decrypt.aad", seen.1, want);
                        check!("decrypt.ct", seen.0, c);
                    }
                }
            }
        }
        other => return format!("BADTYPE {}", other),
    }
    if bad.is_empty() { "MATCH".into() } else { format!("MISMATCH {}", bad.join(" ; ")) }
}

fn palette_header(k: u32, salt: u8) -> Header {
    match k {
        1 => HeaderBuilder::new().algorithm(iana::Algorithm::ES256).build(),
        2 => HeaderBuilder::new().key_id(vec![salt, 1]).build(),
        3 => HeaderBuilder::new().value(1000 + salt as i64, Value::Null).build(),
        // a header that has no encoding: an extra parameter repeats the label of a populated typed field
        4 => Header { alg: Some(Algorithm::Assigned(iana::Algorithm::ES256)), rest: vec![(Label::Int(1), Value::Null)], ..Default::default() },
        _ => Header::default(),
    }
}

/// free_structures <sig|mac|enc> <context index> <body kind> [<sign kind|->]
/// kinds: w = decoded from the wire (retained bytes h'a10126'), 0..3 = built palette header
fn free_structures(p: &[&str]) -> String {
    fn mk(kind: &str, salt: u8) -> ProtectedHeader {
        if kind == "w" {
            ProtectedHeader::from_cbor_bstr(Value::Bytes(vec![0xa1, 0x01, 0x26])).unwrap()
        } else {
            ProtectedHeader { original_data: None, header: palette_header(kind.parse().unwrap(), salt) }
        }
    }
    let ci: usize = p[1].parse().unwrap();
    let body = mk(p[2], 1);
    let aad_buf: Vec<u8> = if p.len() > 4 { vec![0xa5; p[4].parse().unwrap()] } else { b"external-aad".to_vec() };
    let pl_buf: Vec<u8> = if p.len() > 5 { vec![0x5a; p[5].parse().unwrap()] } else { b"payload".to_vec() };
    let aadv: &[u8] = &aad_buf;
    let pl: &[u8] = &pl_buf;
    if p[2] == "4" || (p.len() > 3 && p[3] == "4") {
        // no encoding exists for this header: the only acceptable outcome is a refusal
        let sign = if p.len() > 3 && p[3] != "-" { Some(mk(p[3], 2)) } else { None };
        let r = std::panic::catch_unwind(std::panic::AssertUnwindSafe(|| match p[0] {
            "sig" => sig_structure_data([SignatureContext::CoseSignature, SignatureContext::CoseSign1, SignatureContext::CounterSignature][ci],
                                        body.clone(), sign.clone(), aadv, pl),
            "mac" => mac_structure_data([MacContext::CoseMac, MacContext::CoseMac0][ci], body.clone(), aadv, pl),
            _ => enc_structure_data([EncryptionContext::CoseEncrypt, EncryptionContext::CoseEncrypt0, EncryptionContext::EncRecipient,
                                     EncryptionContext::MacRecipient, EncryptionContext::RecRecipient][ci], body.clone(), aadv),
        }));
        return match r {
            Err(_) => "MATCH refused".into(),
            Ok(b) => format!("MISMATCH structure {} produced for a protected header that has no encoding", hex::encode(b)),
        };
    }
    let (got, want) = match p[0] {
        "sig" => {
            let ctxs = [("Signature", SignatureContext::CoseSignature), ("Signature1", SignatureContext::CoseSign1),
                        ("CounterSignature", SignatureContext::CounterSignature)];
            let sign = if p.len() > 3 && p[3] != "-" { Some(mk(p[3], 2)) } else { None };
            let mut prots = vec![prot_bytes(&body)];
            if let Some(s) = &sign { prots.push(prot_bytes(s)); }
            (sig_structure_data(ctxs[ci].1, body.clone(), sign.clone(), aadv, pl), reference(ctxs[ci].0, &prots, &[aadv, pl]))
        }
        "mac" => {
            let ctxs = [("MAC", MacContext::CoseMac), ("MAC0", MacContext::CoseMac0)];
            (mac_structure_data(ctxs[ci].1, body.clone(), aadv, pl), reference(ctxs[ci].0, &[prot_bytes(&body)], &[aadv, pl]))
        }
        _ => {
            let ctxs = [("Encrypt", EncryptionContext::CoseEncrypt), ("Encrypt0", EncryptionContext::CoseEncrypt0),
                        ("Enc_Recipient", EncryptionContext::EncRecipient), ("Mac_Recipient", EncryptionContext::MacRecipient),
                        ("Rec_Recipient", EncryptionContext::RecRecipient)];
            (enc_structure_data(ctxs[ci].1, body.clone(), aadv), reference(ctxs[ci].0, &[prot_bytes(&body)], &[aadv]))
        }
    };
    if got == want { "MATCH".into() } else { format!("MISMATCH got={} want={}", hex::encode(got), hex::encode(want)) }
}


// ------------------------------------------------------------------------------------------
// C13 / C14: byte-level API against parse-then-convert, natively.

fn registered_tag(t: &str) -> Option<u64> {
    // RFC 8152 section 2, Table 1
    match t {
        "CoseSign" => Some(98),
        "CoseSign1" => Some(18),
        "CoseEncrypt" => Some(96),
        "CoseEncrypt0" => Some(16),
        "CoseMac" => Some(97),
        "CoseMac0" => Some(17),
        _ => None,
    }
}

fn show<T: core::fmt::Debug>(r: &Result<T, CoseError>) -> String {
    match r {
        Ok(v) => format!("OK {:?}", v),
        Err(e) => format!("ERR {}", err_name(e)),
    }
}

fn api_plain<T: CborSerializable + core::fmt::Debug + Clone>(data: &[u8]) -> String {
    let direct = T::from_slice(data);
    let mut rest: &[u8] = data;
    let layered: Result<T, CoseError> = match coset::cbor::de::from_reader::<Value, _>(&mut rest) {
        Err(_) => { return if matches!(direct, Err(CoseError::DecodeFailed(_))) { "MATCH".into() } else { format!("MISMATCH unparsable input gave {}", show(&direct)) }; }
        Ok(v) => {
            if !rest.is_empty() {
                return if matches!(direct, Err(CoseError::ExtraneousData)) { "MATCH".into() } else { format!("MISMATCH trailing data gave {}", show(&direct)) };
            }
            T::from_cbor_value(v)
        }
    };
    if show(&direct) != show(&layered) {
        return format!("MISMATCH from_slice={} layered={}", show(&direct), show(&layered));
    }
    if let Ok(x) = direct {
        let a = x.clone().to_vec();
        let b = x.to_cbor_value().map(|v| ser(&v));
        match (a, b) {
            (Ok(a), Ok(b)) => if a != b { return format!("MISMATCH to_vec={} layered={}", hex::encode(a), hex::encode(b)); },
            (Err(_), Err(_)) => {}
            _ => return "MISMATCH encode success differs".into(),
        }
    }
    "MATCH".into()
}

fn api_tagged<T: TaggedCborSerializable + CborSerializable + core::fmt::Debug + Clone>(data: &[u8], tag: u64) -> String {
    let direct = T::from_tagged_slice(data);
    let mut rest: &[u8] = data;
    let layered: Result<T, CoseError> = match coset::cbor::de::from_reader::<Value, _>(&mut rest) {
        Err(_) => { return if matches!(direct, Err(CoseError::DecodeFailed(_))) { "MATCH".into() } else { format!("MISMATCH unparsable input gave {}", show(&direct)) }; }
        Ok(v) => {
            if !rest.is_empty() {
                return if matches!(direct, Err(CoseError::ExtraneousData)) { "MATCH".into() } else { format!("MISMATCH trailing data gave {}", show(&direct)) };
            }
            match v {
                Value::Tag(t, inner) if t == tag => T::from_cbor_value(*inner),
                _ => { return if direct.is_err() { "MATCH".into() } else { "MISMATCH item without the registered tag accepted".into() }; }
            }
        }
    };
    if show(&direct) != show(&layered) {
        return format!("MISMATCH from_tagged_slice={} layered={}", show(&direct), show(&layered));
    }
    if let Ok(x) = direct {
        let a = x.clone().to_tagged_vec();
        let b = x.to_cbor_value().map(|v| ser(&Value::Tag(tag, Box::new(v))));
        match (a, b) {
            (Ok(a), Ok(b)) => if a != b { return format!("MISMATCH to_tagged_vec={} layered={}", hex::encode(a), hex::encode(b)); },
            (Err(_), Err(_)) => {}
            _ => return "MISMATCH encode success differs".into(),
        }
    }
    "MATCH".into()
}

fn api(p: &[&str]) -> String {
    let data = unhex(p[2]);
    if p[1] == "bstr" {
        // a protected header taken out of a bstr: to_vec must be the serialisation of to_cbor_value
        let x = match ProtectedHeader::from_cbor_bstr(Value::Bytes(data)) { Ok(x) => x, Err(_) => return "MATCH rejected".into() };
        let a = x.clone().to_vec();
        let b = x.to_cbor_value().map(|v| ser(&v));
        return match (a, b) {
            (Ok(a), Ok(b)) => if a != b { format!("MISMATCH to_vec={} layered={}", hex::encode(a), hex::encode(b)) } else { "MATCH".into() },
            (Err(_), Err(_)) => "MATCH".into(),
            _ => "MISMATCH encode success differs".into(),
        };
    }
    if p[1] == "tagged" {
        let tag = match registered_tag(p[0]) { Some(t) => t, None => return "BADTYPE".into() };
        return match p[0] {
            "CoseSign" => api_tagged::<CoseSign>(&data, tag),
            "CoseSign1" => api_tagged::<CoseSign1>(&data, tag),
            "CoseMac" => api_tagged::<CoseMac>(&data, tag),
            "CoseMac0" => api_tagged::<CoseMac0>(&data, tag),
            "CoseEncrypt" => api_tagged::<CoseEncrypt>(&data, tag),
            _ => api_tagged::<CoseEncrypt0>(&data, tag),
        };
    }
    match p[0] {
        "Label" => api_plain::<Label>(&data),
        "Header" => api_plain::<Header>(&data),
        "ProtectedHeader" => api_plain::<ProtectedHeader>(&data),
        "CoseSignature" => api_plain::<CoseSignature>(&data),
        "CoseSign" => api_plain::<CoseSign>(&data),
        "CoseSign1" => api_plain::<CoseSign1>(&data),
        "CoseMac" => api_plain::<CoseMac>(&data),
        "CoseMac0" => api_plain::<CoseMac0>(&data),
        "CoseEncrypt" => api_plain::<CoseEncrypt>(&data),
        "CoseEncrypt0" => api_plain::<CoseEncrypt0>(&data),
        "CoseRecipient" => api_plain::<CoseRecipient>(&data),
        "CoseKey" => api_plain::<CoseKey>(&data),
        "CoseKeySet" => api_plain::<CoseKeySet>(&data),
        "ClaimsSet" => api_plain::<cwt::ClaimsSet>(&data),
        "PartyInfo" => api_plain::<PartyInfo>(&data),
        "SuppPubInfo" => api_plain::<SuppPubInfo>(&data),
        "CoseKdfContext" => api_plain::<CoseKdfContext>(&data),
        other => format!("BADTYPE {}", other),
    }
}

/// canonical_check <flags incl. canon=lex|len> <labels>: keys of the encoded map must be strictly
/// ascending under the chosen ordering of their own encodings.
fn canonical_check(p: &[&str]) -> String {
    let r = encode_literal(&["CoseKey", p[0], p[1]]);
    let hexs = match r.strip_prefix("OK ") { Some(h) => h.to_string(), None => return format!("ENCODE {}", r) };
    let flags: Vec<&str> = p[0].split(',').collect();
    let len_first = flag(&flags, "canon") == Some("len");
    let v = Value::from_slice(&unhex(&hexs)).unwrap();
    let keys: Vec<Vec<u8>> = match v { Value::Map(m) => m.iter().map(|(k, _)| ser(k)).collect(), _ => return "NOTMAP".into() };
    for w in keys.windows(2) {
        let ok = if len_first { (w[0].len(), &w[0]) < (w[1].len(), &w[1]) } else { w[0] < w[1] };
        if !ok {
            return format!("UNSORTED {}", hexs);
        }
    }
    format!("SORTED {}", hexs)
}

/// nested_sign1 <levels>: COSE_Sign1 whose protected header nests counter-signature -> protected
/// header `levels` deep, decoded in a CHILD PROCESS on a 2 MiB thread (the result line reports how
/// the child ended).  `nested_child <levels>` is the child side.
fn nested_bytes(levels: usize) -> Vec<u8> {
    fn bstr(b: &[u8]) -> Vec<u8> {
        let mut v = Vec::new();
        coset::cbor::ser::into_writer(&Value::Bytes(b.to_vec()), &mut v).unwrap();
        v
    }
    let mut prot: Vec<u8> = vec![0xa0];
    for _ in 0..levels {
        // {7: [bstr(prot), {}, h'']}
        let mut m = vec![0xa1, 0x07, 0x83];
        m.extend(bstr(&prot));
        m.extend([0xa0, 0x40]);
        prot = m;
    }
    let mut out = vec![0x84];
    out.extend(bstr(&prot));
    out.extend([0xa0, 0xf6, 0x40]);
    out
}

fn nested_sign1(p: &[&str]) -> String {
    let exe = std::env::current_exe().unwrap();
    let out = std::process::Command::new(exe).arg("--nested-child").arg(p[0]).output();
    match out {
        Ok(o) => {
            let s = String::from_utf8_lossy(&o.stdout).trim().to_string();
            if o.status.success() {
                format!("SURVIVED {}", s)
            } else {
                use std::os::unix::process::ExitStatusExt;
                format!("CRASH signal={:?} code={:?} input_bytes={}", o.status.signal(), o.status.code(), nested_bytes(p[0].parse().unwrap()).len())
            }
        }
        Err(e) => format!("SPAWNERR {}", e),
    }
}

pub fn nested_child(levels: usize) {
    let data = nested_bytes(levels);
    let h = std::thread::Builder::new().stack_size(2 * 1024 * 1024).spawn(move || {
        let r = CoseSign1::from_slice(&data);
        match r { Ok(_) => "Ok", Err(_) => "Err" }
    }).unwrap();
    println!("{}", h.join().unwrap());
}

// ------------------------------------------------------------------------------------------
// Builder-made twins: the decoded value with every retained protected byte string dropped
// (what `builder.protected(h)` produces).

trait Strip {
    fn strip(&mut self);
}
impl Strip for Header {
    fn strip(&mut self) { strip_header(self) }
}
impl Strip for CoseSignature {
    fn strip(&mut self) { strip_sig(self) }
}
impl Strip for CoseRecipient {
    fn strip(&mut self) { strip_rcpt(self) }
}
impl Strip for CoseSign1 {
    fn strip(&mut self) { strip_prot(&mut self.protected); strip_header(&mut self.unprotected); }
}
impl Strip for CoseSign {
    fn strip(&mut self) { strip_prot(&mut self.protected); strip_header(&mut self.unprotected); for s in self.signatures.iter_mut() { strip_sig(s); } }
}
impl Strip for CoseMac0 {
    fn strip(&mut self) { strip_prot(&mut self.protected); strip_header(&mut self.unprotected); }
}
impl Strip for CoseMac {
    fn strip(&mut self) { strip_prot(&mut self.protected); strip_header(&mut self.unprotected); for r in self.recipients.iter_mut() { strip_rcpt(r); } }
}
impl Strip for CoseEncrypt0 {
    fn strip(&mut self) { strip_prot(&mut self.protected); strip_header(&mut self.unprotected); }
}
impl Strip for CoseEncrypt {
    fn strip(&mut self) { strip_prot(&mut self.protected); strip_header(&mut self.unprotected); for r in self.recipients.iter_mut() { strip_rcpt(r); } }
}
impl Strip for SuppPubInfo {
    fn strip(&mut self) { strip_prot(&mut self.protected); }
}
impl Strip for CoseKey { fn strip(&mut self) {} }
impl Strip for CoseKeySet { fn strip(&mut self) {} }
impl Strip for cwt::ClaimsSet { fn strip(&mut self) {} }
impl Strip for PartyInfo { fn strip(&mut self) {} }

fn built_ops<T: Strip + CborSerializable + Clone + PartialEq + core::fmt::Debug>(what: &str, data: &[u8]) -> String {
    let mut v = match T::from_slice(data) { Ok(v) => v, Err(e) => return format!("ERR {}", err_name(&e)) };
    v.strip();
    let b1 = match v.clone().to_vec() { Ok(b) => b, Err(e) => return format!("ENCERR {}", err_name(&e)) };
    if what == "encode_built" {
        return format!("OK {}", hex::encode(b1));
    }
    let mut v2 = match T::from_slice(&b1) { Ok(v) => v, Err(e) => return format!("REDECERR {} {}", err_name(&e), hex::encode(&b1)) };
    let b2 = match v2.clone().to_vec() { Ok(b) => b, Err(e) => return format!("REENCERR {}", err_name(&e)) };
    v2.strip();
    format!("OK eq={} fixed={} b1={}", v == v2, b1 == b2, hex::encode(&b1))
}

fn built(what: &str, p: &[&str]) -> String {
    let data = unhex(p[1]);
    match p[0] {
        "Header" => built_ops::<Header>(what, &data),
        "CoseSignature" => built_ops::<CoseSignature>(what, &data),
        "CoseSign" => built_ops::<CoseSign>(what, &data),
        "CoseSign1" => built_ops::<CoseSign1>(what, &data),
        "CoseMac" => built_ops::<CoseMac>(what, &data),
        "CoseMac0" => built_ops::<CoseMac0>(what, &data),
        "CoseEncrypt" => built_ops::<CoseEncrypt>(what, &data),
        "CoseEncrypt0" => built_ops::<CoseEncrypt0>(what, &data),
        "CoseRecipient" => built_ops::<CoseRecipient>(what, &data),
        "CoseKey" => built_ops::<CoseKey>(what, &data),
        "CoseKeySet" => built_ops::<CoseKeySet>(what, &data),
        "ClaimsSet" => built_ops::<cwt::ClaimsSet>(what, &data),
        "PartyInfo" => built_ops::<PartyInfo>(what, &data),
        "SuppPubInfo" => built_ops::<SuppPubInfo>(what, &data),
        other => format!("BADTYPE {}", other),
    }
}

/// spine <Type> <hex> <limit>: a COSE_Sign1 nesting spine: counts the counter-signature nesting of
/// the input with an independent walk over the ciborium Value, and checks that it is accepted iff
/// the nesting does not exceed <limit> (-1: no limit), and that an accepted input round-trips.
fn spine(p: &[&str]) -> String {
    // p[0] = <mode>[:<Type>]
    let mut it = p[0].split(':');
    let mode = it.next().unwrap();
    let ty = it.next().unwrap_or("CoseSign1");
    let data = unhex(p[1]);
    let limit: i64 = p[2].parse().unwrap();
    fn depth_of_header(h: &Value) -> usize {
        // nesting of counter-signatures below this header map
        let mut best = 0;
        if let Value::Map(m) = h {
            for (k, v) in m {
                if *k == Value::from(7) {
                    if let Value::Array(a) = v {
                        let sigs: Vec<&Value> = match a.first() { Some(Value::Array(_)) => a.iter().collect(), _ => vec![v] };
                        for s in sigs {
                            best = best.max(1 + depth_of_sig(s));
                        }
                    }
                }
            }
        }
        best
    }
    fn depth_of_sig(s: &Value) -> usize {
        // a structure whose first two slots are the protected bstr and the unprotected map
        let mut d = 0;
        if let Value::Array(a) = s {
            if a.len() >= 2 {
                if let Value::Bytes(b) = &a[0] {
                    if !b.is_empty() {
                        if let Ok(h) = Value::from_slice(b) { d = d.max(depth_of_header(&h)); }
                    }
                }
                d = d.max(depth_of_header(&a[1]));
            }
        }
        d
    }
    let v = match Value::from_slice(&data) { Ok(v) => v, Err(_) => return "UNPARSABLE".into() };
    let mut nesting = depth_of_sig(&v);
    if ty == "CoseSign" {
        if let Value::Array(a) = &v {
            if let Some(Value::Array(sigs)) = a.get(3) {
                for s in sigs { nesting = nesting.max(depth_of_sig(s)); }
            }
        }
    }
    fn run<T: CborSerializable + AsCborValue + Clone + PartialEq>(mode: &str, data: &[u8], nesting: usize, limit: i64) -> String {
        let r = T::from_slice(data);
        let want_ok = limit < 0 || nesting as i64 <= limit;
        if mode == "limit" && r.is_ok() != want_ok {
            return format!("MISMATCH nesting={} limit={} accepted={}", nesting, limit, r.is_ok());
        }
        if mode == "limit" {
            return format!("MATCH nesting={}", nesting);
        }
        if r.is_err() && want_ok {
            // the bytes are the encoding of a value within the documented limit: it does not decode back
            return format!("MISMATCH nesting={} within limit={} is rejected: encode/decode loses the value", nesting, limit);
        }
        if let Ok(x) = r {
            let b1 = match x.clone().to_vec() { Ok(b) => b, Err(_) => return "MISMATCH accepted spine does not encode".into() };
            match T::from_slice(&b1) {
                Ok(y) => if y != x { return "MISMATCH decode(encode(v)) != v".into(); },
                Err(e) => return format!("MISMATCH encoding of an accepted spine is rejected ({})", err_name(&e)),
            }
        }
        format!("MATCH nesting={}", nesting)
    }
    match ty {
        "CoseSignature" => run::<CoseSignature>(mode, &data, nesting, limit),
        "CoseSign" => run::<CoseSign>(mode, &data, nesting, limit),
        _ => run::<CoseSign1>(mode, &data, nesting, limit),
    }
}
