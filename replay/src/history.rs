//! Native replay of a builder call history explored by the C06 job:
//! `history <Type> step0=k,hdr.s0=k,...,wire=w,same-aad=s`
//! The decision names and option orders mirror mirsym/jobs_struct.py::history_job.
use coset::cbor::value::Value;
use coset::*;
use std::collections::HashMap;

const AAD: &[u8] = b"external-aad";
const AAD2: &[u8] = b"another-aad";
const DET: &[u8] = b"detached-payload";

fn palette_header(k: u32, salt: u8) -> Header {
    match k {
        1 => HeaderBuilder::new().algorithm(iana::Algorithm::ES256).build(),
        2 => HeaderBuilder::new().key_id(vec![salt, 1]).build(),
        3 => HeaderBuilder::new().value(1000 + salt as i64, Value::Null).build(),
        _ => Header::default(),
    }
}

fn ser(v: &Value) -> Vec<u8> {
    let mut out = Vec::new();
    coset::cbor::ser::into_writer(v, &mut out).unwrap();
    out
}

/// RFC 8152 structure for builder-made protected headers (empty -> h'', else the encoded map).
fn reference(ctx: &str, headers: &[&Header], tail: &[&[u8]]) -> Vec<u8> {
    let mut a = vec![Value::Text(ctx.to_string())];
    for h in headers {
        let b = if **h == Header::default() { vec![] } else { (*h).clone().to_vec().unwrap() };
        a.push(Value::Bytes(b));
    }
    for t in tail {
        a.push(Value::Bytes(t.to_vec()));
    }
    ser(&Value::Array(a))
}

struct Spec(HashMap<String, u32>);
impl Spec {
    fn get(&self, k: &str) -> Option<u32> {
        self.0.get(k).copied()
    }
}

fn parse(s: &str) -> Spec {
    let mut m = HashMap::new();
    if s != "-" {
        for kv in s.split(',') {
            let mut it = kv.split('=');
            let k = it.next().unwrap().to_string();
            let v: u32 = it.next().unwrap().parse().unwrap();
            m.insert(k, v);
        }
    }
    Spec(m)
}

#[derive(Default)]
struct Outcome {
    created: Option<(Vec<u8>, Vec<u8>)>, // (bytes the creator saw, bytes it returned)
    signer: usize,
    detached: bool,
    dirty: bool,
    refused_ok: bool,
    notes: Vec<String>,
    want_created: Option<Vec<u8>>,
}

fn verdict(o: &Outcome, seen: Option<(Vec<u8>, Vec<u8>)>, same_aad: bool) -> String {
    if !o.notes.is_empty() {
        return format!("MISMATCH {}", o.notes.join(" ; "));
    }
    let (made_data, made) = match &o.created {
        Some(c) => c.clone(),
        None => return "MATCH nothing-created".into(),
    };
    if let Some(w) = &o.want_created {
        if *w != made_data {
            return format!("MISMATCH creator saw {} but RFC 8152 prescribes {}", hex::encode(&made_data), hex::encode(w));
        }
    }
    if o.dirty {
        return "MATCH premise-not-met".into();
    }
    let (stored, data) = match seen {
        Some(s) => s,
        None => return "MISMATCH verifier not called".into(),
    };
    if stored != made {
        return format!("MISMATCH stored {} vs made {}", hex::encode(stored), hex::encode(made));
    }
    if same_aad && data != made_data {
        return format!("MISMATCH verify-data {} vs create-data {}", hex::encode(data), hex::encode(made_data));
    }
    if !same_aad && data == made_data {
        return "MISMATCH different AAD, same bytes".into();
    }
    "MATCH".into()
}

macro_rules! wire {
    ($ty:ty, $x:expr, $w:expr, tagged) => {
        match $w {
            0 => <$ty>::from_cbor_value($x.to_cbor_value().unwrap()),
            1 => <$ty>::from_slice(&$x.to_vec().unwrap()),
            _ => <$ty>::from_tagged_slice(&$x.to_tagged_vec().unwrap()),
        }
    };
    ($ty:ty, $x:expr, $w:expr, untagged) => {
        match $w {
            0 => <$ty>::from_cbor_value($x.to_cbor_value().unwrap()),
            _ => <$ty>::from_slice(&$x.to_vec().unwrap()),
        }
    };
}

fn sign1(sp: &Spec) -> String {
    // methods: protected unprotected create try_create payload create_detached
    let mut b = CoseSign1Builder::new();
    let mut o = Outcome::default();
    #[allow(unused_mut, unused_variables)]
    let (mut cur_prot, mut cur_payload): (Header, Vec<u8>) = (Header::default(), vec![]);
    let mut has_payload = false;
    let mut i = 0;
    while let Some(k) = sp.get(&format!("step{}", i)) {
        let salt = i as u8;
        match k {
            0 => { cur_prot = palette_header(sp.get(&format!("hdr.s{}", i)).unwrap_or(0), salt); b = b.protected(cur_prot.clone()); if o.created.is_some() { o.dirty = true; } }
            1 => { b = b.unprotected(palette_header(sp.get(&format!("hdr.s{}", i)).unwrap_or(0), salt)); }
            4 => { cur_payload = format!("payload{}", i).into_bytes(); b = b.payload(cur_payload.clone()); has_payload = true; if o.created.is_some() { o.dirty = true; } }
            2 | 3 | 5 | 6 => {
                let made = format!("made{}", i).into_bytes();
                let fails = (k == 3 || k == 6) && sp.get(&format!("creator-fails{}", i)) == Some(1);
                let mut saw = vec![];
                if (k == 5 || k == 6) && has_payload {
                    let r = std::panic::catch_unwind(std::panic::AssertUnwindSafe(|| {
                        if k == 5 { let _ = b.create_detached_signature(DET, AAD, |d| d.to_vec()); }
                        else { let _ = b.try_create_detached_signature(DET, AAD, |d| -> Result<Vec<u8>, u64> { Ok(d.to_vec()) }); }
                    }));
                    return if r.is_err() { "MATCH refused".into() } else { "MISMATCH detached creation accepted an embedded payload".into() };
                }
                if k == 2 {
                    b = b.create_signature(AAD, |d| { saw = d.to_vec(); made.clone() });
                } else if k == 5 {
                    b = b.create_detached_signature(DET, AAD, |d| { saw = d.to_vec(); made.clone() });
                } else if k == 6 {
                    match b.try_create_detached_signature(DET, AAD, |d| -> Result<Vec<u8>, u64> { saw = d.to_vec(); if fails { Err(77) } else { Ok(made.clone()) } }) {
                        Ok(nb) => { if fails { return "MISMATCH failing creator gave a builder".into(); } b = nb; }
                        Err(e) => { return if fails && e == 77 { "MATCH error-returned".into() } else { "MISMATCH wrong error".into() }; }
                    }
                } else {
                    match b.try_create_signature(AAD, |d| -> Result<Vec<u8>, u64> { saw = d.to_vec(); if fails { Err(77) } else { Ok(made.clone()) } }) {
                        Ok(nb) => { if fails { return "MISMATCH failing creator gave a builder".into(); } b = nb; }
                        Err(e) => { return if fails && e == 77 { "MATCH error-returned".into() } else { "MISMATCH wrong error".into() }; }
                    }
                }
                o.created = Some((saw, made));
                o.detached = k == 5 || k == 6;
                o.dirty = false;
                o.want_created = Some(reference("Signature1", &[&cur_prot], &[AAD, if o.detached { DET } else { &cur_payload }]));
            }
            _ => {}
        }
        i += 1;
    }
    if o.created.is_none() { return "MATCH nothing-created".into(); }
    let x = b.build();
    let y = match wire!(CoseSign1, x.clone(), sp.get("wire").unwrap_or(0), tagged) { Ok(y) => y, Err(_) => return "MISMATCH built message does not decode".into() };
    let same = sp.get("same-aad").unwrap_or(0) == 0;
    let aad = if same { AAD } else { AAD2 };
    let mut seen = None;
    if o.detached {
        let _ = y.verify_detached_signature(DET, aad, |s, d| -> Result<(), ()> { seen = Some((s.to_vec(), d.to_vec())); Ok(()) });
    } else {
        let _ = y.verify_signature(aad, |s, d| -> Result<(), ()> { seen = Some((s.to_vec(), d.to_vec())); Ok(()) });
    }
    verdict(&o, seen, same)
}

fn sign(sp: &Spec, templates: &HashMap<usize, Vec<u8>>) -> String {
    let mut b = CoseSignBuilder::new();
    let mut o = Outcome::default();
    #[allow(unused_mut, unused_variables)]
    let (mut cur_prot, mut cur_payload): (Header, Vec<u8>) = (Header::default(), vec![]);
    let mut has_payload = false;
    let mut n = 0usize;
    let mut i = 0;
    while let Some(k) = sp.get(&format!("step{}", i)) {
        let salt = i as u8;
        match k {
            0 => { cur_prot = palette_header(sp.get(&format!("hdr.s{}", i)).unwrap_or(0), salt); b = b.protected(cur_prot.clone()); if o.created.is_some() { o.dirty = true; } }
            1 => { b = b.unprotected(palette_header(sp.get(&format!("hdr.s{}", i)).unwrap_or(0), salt)); }
            4 => { cur_payload = format!("payload{}", i).into_bytes(); b = b.payload(cur_payload.clone()); has_payload = true; if o.created.is_some() { o.dirty = true; } }
            2 | 3 | 5 | 6 => {
                let sig_hdr = palette_header(sp.get(&format!("hdr.sg{}", i)).unwrap_or(0), salt + 50);
                // the signature template: builder-made, or (wire-template histories) a COSE_Signature
                // decoded from the given bytes, whose protected header keeps its wire bytes
                let (sig, sig_prot_bytes): (CoseSignature, Option<Vec<u8>>) = match templates.get(&(i as usize)) {
                    Some(bytes) => {
                        let t = match CoseSignature::from_slice(bytes) { Ok(t) => t, Err(_) => return "BADTEMPLATE".into() };
                        let raw = match Value::from_slice(bytes) { Ok(Value::Array(a)) => match a.first() { Some(Value::Bytes(b)) => b.clone(), _ => vec![] }, _ => vec![] };
                        (t, Some(raw))
                    }
                    None => (CoseSignatureBuilder::new().protected(sig_hdr.clone()).build(), None),
                };
                let made = format!("made{}", i).into_bytes();
                let fails = (k == 3 || k == 6) && sp.get(&format!("creator-fails{}", i)) == Some(1);
                let mut saw = vec![];
                if (k == 5 || k == 6) && has_payload {
                    let r = std::panic::catch_unwind(std::panic::AssertUnwindSafe(|| {
                        if k == 5 { let _ = b.add_detached_signature(sig.clone(), DET, AAD, |d| d.to_vec()); }
                        else { let _ = b.try_add_detached_signature(sig.clone(), DET, AAD, |d| -> Result<Vec<u8>, u64> { Ok(d.to_vec()) }); }
                    }));
                    return if r.is_err() { "MATCH refused".into() } else { "MISMATCH detached creation accepted an embedded payload".into() };
                }
                if k == 2 {
                    b = b.add_created_signature(sig, AAD, |d| { saw = d.to_vec(); made.clone() });
                } else if k == 5 {
                    b = b.add_detached_signature(sig, DET, AAD, |d| { saw = d.to_vec(); made.clone() });
                } else if k == 6 {
                    match b.try_add_detached_signature(sig, DET, AAD, |d| -> Result<Vec<u8>, u64> { saw = d.to_vec(); if fails { Err(77) } else { Ok(made.clone()) } }) {
                        Ok(nb) => { if fails { return "MISMATCH failing creator gave a builder".into(); } b = nb; }
                        Err(e) => { return if fails && e == 77 { "MATCH error-returned".into() } else { "MISMATCH wrong error".into() }; }
                    }
                } else {
                    match b.try_add_created_signature(sig, AAD, |d| -> Result<Vec<u8>, u64> { saw = d.to_vec(); if fails { Err(77) } else { Ok(made.clone()) } }) {
                        Ok(nb) => { if fails { return "MISMATCH failing creator gave a builder".into(); } b = nb; }
                        Err(e) => { return if fails && e == 77 { "MATCH error-returned".into() } else { "MISMATCH wrong error".into() }; }
                    }
                }
                o.created = Some((saw, made));
                o.signer = n;
                n += 1;
                o.detached = k == 5 || k == 6;
                o.dirty = false;
                o.want_created = Some(match &sig_prot_bytes {
                    None => reference("Signature", &[&cur_prot, &sig_hdr], &[AAD, if o.detached { DET } else { &cur_payload }]),
                    Some(raw) => {
                        let body = if cur_prot == Header::default() { vec![] } else { cur_prot.clone().to_vec().unwrap() };
                        ser(&Value::Array(vec![Value::Text("Signature".into()), Value::Bytes(body), Value::Bytes(raw.clone()),
                                               Value::Bytes(AAD.to_vec()), Value::Bytes(if o.detached { DET.to_vec() } else { cur_payload.clone() })]))
                    }
                });
            }
            _ => {}
        }
        i += 1;
    }
    if o.created.is_none() { return "MATCH nothing-created".into(); }
    let x = b.build();
    let y = match wire!(CoseSign, x.clone(), sp.get("wire").unwrap_or(0), tagged) { Ok(y) => y, Err(_) => return "MISMATCH built message does not decode".into() };
    let same = sp.get("same-aad").unwrap_or(0) == 0;
    let aad = if same { AAD } else { AAD2 };
    let mut seen = None;
    if o.detached {
        let _ = y.verify_detached_signature(o.signer, DET, aad, |s, d| -> Result<(), ()> { seen = Some((s.to_vec(), d.to_vec())); Ok(()) });
    } else {
        let _ = y.verify_signature(o.signer, aad, |s, d| -> Result<(), ()> { seen = Some((s.to_vec(), d.to_vec())); Ok(()) });
    }
    verdict(&o, seen, same)
}

macro_rules! mac_family {
    ($fname:ident, $builder:ty, $msg:ty, $ctx:literal) => {
        fn $fname(sp: &Spec) -> String {
            // methods: protected unprotected create try_create payload
            let mut b = <$builder>::new();
            let mut o = Outcome::default();
            #[allow(unused_mut, unused_variables)]
            let (mut cur_prot, mut cur_payload): (Header, Vec<u8>) = (Header::default(), vec![]);
    #[allow(unused_mut, unused_variables)]
    let (mut cur_prot, mut cur_payload): (Header, Vec<u8>) = (Header::default(), vec![]);
            let mut has_payload = false;
            let mut i = 0;
            while let Some(k) = sp.get(&format!("step{}", i)) {
                let salt = i as u8;
                match k {
                    0 => { cur_prot = palette_header(sp.get(&format!("hdr.s{}", i)).unwrap_or(0), salt); b = b.protected(cur_prot.clone()); if o.created.is_some() { o.dirty = true; } }
                    1 => { b = b.unprotected(palette_header(sp.get(&format!("hdr.s{}", i)).unwrap_or(0), salt)); }
                    4 => { cur_payload = format!("payload{}", i).into_bytes(); b = b.payload(cur_payload.clone()); has_payload = true; if o.created.is_some() { o.dirty = true; } }
                    2 | 3 => {
                        let made = format!("made{}", i).into_bytes();
                        let fails = k == 3 && sp.get(&format!("creator-fails{}", i)) == Some(1);
                        let mut saw = vec![];
                        if !has_payload {
                            let r = std::panic::catch_unwind(std::panic::AssertUnwindSafe(|| {
                                if k == 2 { let _ = b.create_tag(AAD, |d| d.to_vec()); }
                                else { let _ = b.try_create_tag(AAD, |d| -> Result<Vec<u8>, u64> { Ok(d.to_vec()) }); }
                            }));
                            return if r.is_err() { "MATCH refused".into() } else { "MISMATCH create_tag without payload did not panic".into() };
                        }
                        if k == 2 {
                            b = b.create_tag(AAD, |d| { saw = d.to_vec(); made.clone() });
                        } else {
                            match b.try_create_tag(AAD, |d| -> Result<Vec<u8>, u64> { saw = d.to_vec(); if fails { Err(77) } else { Ok(made.clone()) } }) {
                                Ok(nb) => { if fails { return "MISMATCH failing creator gave a builder".into(); } b = nb; }
                                Err(e) => { return if fails && e == 77 { "MATCH error-returned".into() } else { "MISMATCH wrong error".into() }; }
                            }
                        }
                        o.created = Some((saw, made));
                        o.dirty = false;
                        o.want_created = Some(reference($ctx, &[&cur_prot], &[AAD, &cur_payload]));
                    }
                    _ => {}
                }
                i += 1;
            }
            if o.created.is_none() { return "MATCH nothing-created".into(); }
            let x = b.build();
            let y = match wire!($msg, x.clone(), sp.get("wire").unwrap_or(0), tagged) { Ok(y) => y, Err(_) => return "MISMATCH built message does not decode".into() };
            let same = sp.get("same-aad").unwrap_or(0) == 0;
            let aad = if same { AAD } else { AAD2 };
            let mut seen = None;
            let _ = y.verify_tag(aad, |s, d| -> Result<(), ()> { seen = Some((s.to_vec(), d.to_vec())); Ok(()) });
            verdict(&o, seen, same)
        }
    };
}
mac_family!(mac0, CoseMac0Builder, CoseMac0, "MAC0");
mac_family!(mac, CoseMacBuilder, CoseMac, "MAC");

macro_rules! enc_family {
    ($fname:ident, $builder:ty, $msg:ty, $ctx:literal) => {
        fn $fname(sp: &Spec) -> String {
            // methods: protected unprotected create try_create
            let mut b = <$builder>::new();
            let mut o = Outcome::default();
            #[allow(unused_mut, unused_variables)]
            let (mut cur_prot, mut cur_payload): (Header, Vec<u8>) = (Header::default(), vec![]);
    #[allow(unused_mut, unused_variables)]
    let (mut cur_prot, mut cur_payload): (Header, Vec<u8>) = (Header::default(), vec![]);
            let mut i = 0;
            while let Some(k) = sp.get(&format!("step{}", i)) {
                let salt = i as u8;
                match k {
                    0 => { cur_prot = palette_header(sp.get(&format!("hdr.s{}", i)).unwrap_or(0), salt); b = b.protected(cur_prot.clone()); if o.created.is_some() { o.dirty = true; } }
                    1 => { b = b.unprotected(palette_header(sp.get(&format!("hdr.s{}", i)).unwrap_or(0), salt)); }
                    2 | 3 => {
                        let made = format!("made{}", i).into_bytes();
                        let pt = format!("plaintext{}", i).into_bytes();
                        let fails = k == 3 && sp.get(&format!("creator-fails{}", i)) == Some(1);
                        let mut saw = vec![];
                        let mut saw_pt = vec![];
                        if k == 2 {
                            b = b.create_ciphertext(&pt, AAD, |p, d| { saw_pt = p.to_vec(); saw = d.to_vec(); made.clone() });
                        } else {
                            match b.try_create_ciphertext(&pt, AAD, |p, d| -> Result<Vec<u8>, u64> { saw_pt = p.to_vec(); saw = d.to_vec(); if fails { Err(77) } else { Ok(made.clone()) } }) {
                                Ok(nb) => { if fails { return "MISMATCH failing creator gave a builder".into(); } b = nb; }
                                Err(e) => { return if fails && e == 77 { "MATCH error-returned".into() } else { "MISMATCH wrong error".into() }; }
                            }
                        }
                        if saw_pt != pt { o.notes.push("cipher did not receive the plaintext".into()); }
                        o.created = Some((saw, made));
                        o.dirty = false;
                        o.want_created = Some(reference($ctx, &[&cur_prot], &[AAD]));
                    }
                    _ => {}
                }
                i += 1;
            }
            if o.created.is_none() { return "MATCH nothing-created".into(); }
            let x = b.build();
            let y = match wire!($msg, x.clone(), sp.get("wire").unwrap_or(0), tagged) { Ok(y) => y, Err(_) => return "MISMATCH built message does not decode".into() };
            let same = sp.get("same-aad").unwrap_or(0) == 0;
            let aad = if same { AAD } else { AAD2 };
            let mut seen = None;
            let _ = y.decrypt(aad, |s, d| -> Result<Vec<u8>, ()> { seen = Some((s.to_vec(), d.to_vec())); Ok(vec![]) });
            verdict(&o, seen, same)
        }
    };
}
enc_family!(encrypt0, CoseEncrypt0Builder, CoseEncrypt0, "Encrypt0");
enc_family!(encrypt, CoseEncryptBuilder, CoseEncrypt, "Encrypt");

fn recipient(sp: &Spec) -> String {
    let ctxs = [EncryptionContext::CoseEncrypt, EncryptionContext::CoseEncrypt0, EncryptionContext::EncRecipient,
                EncryptionContext::MacRecipient, EncryptionContext::RecRecipient];
    let mut b = CoseRecipientBuilder::new();
    let mut o = Outcome::default();
    #[allow(unused_mut, unused_variables)]
    let (mut cur_prot, mut cur_payload): (Header, Vec<u8>) = (Header::default(), vec![]);
    let mut rctx = 2usize;
    let mut i = 0;
    while let Some(k) = sp.get(&format!("step{}", i)) {
        let salt = i as u8;
        match k {
            0 => { cur_prot = palette_header(sp.get(&format!("hdr.s{}", i)).unwrap_or(0), salt); b = b.protected(cur_prot.clone()); if o.created.is_some() { o.dirty = true; } }
            1 => { b = b.unprotected(palette_header(sp.get(&format!("hdr.s{}", i)).unwrap_or(0), salt)); }
            2 | 3 => {
                rctx = sp.get(&format!("rctx{}", i)).unwrap_or(0) as usize;
                let made = format!("made{}", i).into_bytes();
                let pt = format!("plaintext{}", i).into_bytes();
                let fails = k == 3 && sp.get(&format!("creator-fails{}", i)) == Some(1);
                let mut saw = vec![];
                if rctx < 2 {
                    let r = std::panic::catch_unwind(std::panic::AssertUnwindSafe(|| {
                        if k == 2 {
                            let _ = b.create_ciphertext(ctxs[rctx], &pt, AAD, |_p, d| d.to_vec());
                        } else {
                            let _ = b.try_create_ciphertext(ctxs[rctx], &pt, AAD, |_p, d| -> Result<Vec<u8>, u64> { if fails { Err(77) } else { Ok(d.to_vec()) } });
                        }
                    }));
                    return if r.is_err() { "MATCH refused".into() } else { "MISMATCH non-recipient context accepted".into() };
                }
                if k == 2 {
                    b = b.create_ciphertext(ctxs[rctx], &pt, AAD, |_p, d| { saw = d.to_vec(); made.clone() });
                } else {
                    match b.try_create_ciphertext(ctxs[rctx], &pt, AAD, |_p, d| -> Result<Vec<u8>, u64> { saw = d.to_vec(); if fails { Err(77) } else { Ok(made.clone()) } }) {
                        Ok(nb) => { if fails { return "MISMATCH failing creator gave a builder".into(); } b = nb; }
                        Err(e) => { return if fails && e == 77 { "MATCH error-returned".into() } else { "MISMATCH wrong error".into() }; }
                    }
                }
                o.created = Some((saw, made));
                o.dirty = false;
                let names = ["Encrypt", "Encrypt0", "Enc_Recipient", "Mac_Recipient", "Rec_Recipient"];
                o.want_created = Some(reference(names[rctx], &[&cur_prot], &[AAD]));
            }
            _ => {}
        }
        i += 1;
    }
    if o.created.is_none() { return "MATCH nothing-created".into(); }
    let x = b.build();
    let y = match wire!(CoseRecipient, x.clone(), sp.get("wire").unwrap_or(0), untagged) { Ok(y) => y, Err(_) => return "MISMATCH built message does not decode".into() };
    let same = sp.get("same-aad").unwrap_or(0) == 0;
    let aad = if same { AAD } else { AAD2 };
    let mut seen = None;
    let _ = y.decrypt(ctxs[rctx], aad, |s, d| -> Result<Vec<u8>, ()> { seen = Some((s.to_vec(), d.to_vec())); Ok(vec![]) });
    verdict(&o, seen, same)
}

pub fn run(p: &[&str]) -> String {
    let sp = parse(p[1]);
    // optional third argument: signature templates decoded from the wire, "<step>:<hex>,..."
    let mut templates: HashMap<usize, Vec<u8>> = HashMap::new();
    if p.len() > 2 && p[2] != "-" {
        for kv in p[2].split(',') {
            let mut it = kv.split(':');
            let k: usize = it.next().unwrap().parse().unwrap();
            templates.insert(k, hex::decode(it.next().unwrap()).unwrap());
        }
    }
    match p[0] {
        "CoseSign1" => sign1(&sp),
        "CoseSign" => sign(&sp, &templates),
        "CoseMac0" => mac0(&sp),
        "CoseMac" => mac(&sp),
        "CoseEncrypt0" => encrypt0(&sp),
        "CoseEncrypt" => encrypt(&sp),
        "CoseRecipient" => recipient(&sp),
        other => format!("BADTYPE {}", other),
    }
}
