//! Kani proof harnesses over google/coset's real compiled code (Engine K of /verif/DESIGN.md).
//!
//! Every harness goes through coset's public API.  Harness names start with the lower-case
//! property id (`c16_...`) so that the driver can select them per property.
#![allow(dead_code)]
#![allow(clippy::all)]
#![allow(static_mut_refs)]
extern crate alloc;

#[cfg(kani)]
mod stubs;
#[cfg(kani)]
mod util;

#[cfg(kani)]
mod c16;
#[cfg(kani)]
mod c15;
#[cfg(kani)]
mod c17;
#[cfg(kani)]
mod c17_gen;
#[cfg(kani)]
mod c19;
