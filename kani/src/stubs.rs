//! Stubs applied to every harness (see DESIGN.md section 3.1).  Each one is part of the claim.
//!
//! * `alloc::fmt::format` -> empty string: error-message text is never observed by a property.
//! * `Result::unwrap` / `Result::expect` -> Debug-free twins with identical panic behaviour
//!   (avoids a Kani compiler ICE on `#[derive(Debug)] ciborium::ser::Error<Infallible>`).
//! * `ciborium::ser::into_writer` -> variants below; ciborium's serde byte layer is outside what
//!   CBMC can execute (DESIGN.md P-j/P-k/P-l).
use coset::cbor::value::Value;

pub fn format_stub(_args: core::fmt::Arguments<'_>) -> alloc::string::String {
    alloc::string::String::new()
}

pub fn unwrap_stub<T, E: core::fmt::Debug>(r: Result<T, E>) -> T {
    match r {
        Ok(v) => v,
        Err(_) => panic!("unwrap on Err"),
    }
}

pub fn expect_stub<T, E: core::fmt::Debug>(r: Result<T, E>, _msg: &str) -> T {
    match r {
        Ok(v) => v,
        Err(_) => panic!("expect on Err"),
    }
}

/// Number of times the serialiser was entered in this harness run.
pub static mut WRITER_CALLS: u32 = 0;
/// Verdict accumulated by `into_writer_check` (set by the checker installed in `CHECKER`).
pub static mut WRITER_OK: bool = true;
/// Structural checker run on each `Value` handed to the serialiser.
pub static mut CHECKER: Option<fn(&Value, u32) -> bool> = None;
/// Bytes the stub appends to the writer (so that callers which wrap the output can be observed).
pub static mut WRITER_OUT: [u8; 4] = [0; 4];
pub static mut WRITER_OUT_LEN: usize = 0;

/// Capture stub: runs the installed checker on the `Value` tree coset hands to the serialiser and
/// writes the marker bytes `WRITER_OUT[..WRITER_OUT_LEN]` instead of real CBOR.
pub fn into_writer_capture<T: ?Sized + serde::Serialize, W: ciborium_io::Write>(
    value: &T,
    mut writer: W,
) -> Result<(), coset::cbor::ser::Error<W::Error>>
where
    W::Error: core::fmt::Debug,
{
    // coset only ever serialises `ciborium::Value`.
    let v: &Value = unsafe { &*(value as *const T as *const Value) };
    unsafe {
        let n = WRITER_CALLS;
        WRITER_CALLS = n + 1;
        if let Some(f) = CHECKER {
            if !f(v, n) {
                WRITER_OK = false;
            }
        }
        let len = WRITER_OUT_LEN;
        let out = WRITER_OUT;
        if len > 0 {
            let _ = writer.write_all(&out[..len]);
        }
    }
    Ok(())
}

/// Reference encoder for a single integer or short text `Value` (the only shapes
/// `Label::cmp_canonical` serialises): RFC 8949 shortest-form head + content.
pub fn into_writer_label<T: ?Sized + serde::Serialize, W: ciborium_io::Write>(
    value: &T,
    mut writer: W,
) -> Result<(), coset::cbor::ser::Error<W::Error>>
where
    W::Error: core::fmt::Debug,
{
    let v: &Value = unsafe { &*(value as *const T as *const Value) };
    match v {
        Value::Integer(i) => {
            let x: i128 = (*i).into();
            let (mt, n): (u8, u64) = if x < 0 { (0x20, (-1 - x) as u64) } else { (0x00, x as u64) };
            let mut buf = [0u8; 9];
            let len = crate::util::head(mt, n, &mut buf);
            let _ = writer.write_all(&buf[..len]);
        }
        Value::Text(t) => {
            let mut buf = [0u8; 9];
            let len = crate::util::head(0x60, t.len() as u64, &mut buf);
            let _ = writer.write_all(&buf[..len]);
            let _ = writer.write_all(t.as_bytes());
        }
        _ => panic!("into_writer_label: unexpected shape"),
    }
    Ok(())
}
