//! Independent reference helpers (written from RFC 8949 / RFC 8152, never from coset's code).
use alloc::string::String;
use alloc::vec::Vec;
use core::cmp::Ordering;

/// RFC 8949 shortest-form head for major type bits `mt` (already shifted: 0x00, 0x20, 0x40, ...)
/// and argument `n`; returns the number of bytes written to `buf`.
pub fn head(mt: u8, n: u64, buf: &mut [u8; 9]) -> usize {
    if n < 24 {
        buf[0] = mt | (n as u8);
        1
    } else if n <= 0xff {
        buf[0] = mt | 24;
        buf[1] = n as u8;
        2
    } else if n <= 0xffff {
        buf[0] = mt | 25;
        buf[1] = (n >> 8) as u8;
        buf[2] = n as u8;
        3
    } else if n <= 0xffff_ffff {
        buf[0] = mt | 26;
        buf[1] = (n >> 24) as u8;
        buf[2] = (n >> 16) as u8;
        buf[3] = (n >> 8) as u8;
        buf[4] = n as u8;
        5
    } else {
        buf[0] = mt | 27;
        buf[1] = (n >> 56) as u8;
        buf[2] = (n >> 48) as u8;
        buf[3] = (n >> 40) as u8;
        buf[4] = (n >> 32) as u8;
        buf[5] = (n >> 24) as u8;
        buf[6] = (n >> 16) as u8;
        buf[7] = (n >> 8) as u8;
        buf[8] = n as u8;
        9
    }
}

/// (first byte, argument, encoded length) of the deterministic encoding of integer `i`.
/// Two deterministic integer encodings compare bytewise exactly as (first byte, argument).
pub fn int_key(i: i64) -> (u8, u64, usize) {
    let (mt, n): (u8, u64) = if i < 0 { (0x20, !(i as u64)) } else { (0x00, i as u64) };
    let (ai, len): (u8, usize) = if n < 24 {
        (n as u8, 1)
    } else if n <= 0xff {
        (24, 2)
    } else if n <= 0xffff {
        (25, 3)
    } else if n <= 0xffff_ffff {
        (26, 5)
    } else {
        (27, 9)
    };
    (mt | ai, n, len)
}

/// Bytewise lexicographic order of the deterministic encodings of two integers (RFC 8949 4.2.1).
pub fn ref_int_lex(a: i64, b: i64) -> Ordering {
    let (fa, na, _) = int_key(a);
    let (fb, nb, _) = int_key(b);
    if fa != fb {
        if fa < fb { Ordering::Less } else { Ordering::Greater }
    } else if na != nb {
        if na < nb { Ordering::Less } else { Ordering::Greater }
    } else {
        Ordering::Equal
    }
}

/// Length-first, then bytewise order of the encodings of two integers (RFC 7049 3.9).
pub fn ref_int_lenfirst(a: i64, b: i64) -> Ordering {
    let (_, _, la) = int_key(a);
    let (_, _, lb) = int_key(b);
    if la != lb {
        if la < lb { Ordering::Less } else { Ordering::Greater }
    } else {
        ref_int_lex(a, b)
    }
}

/// Bytewise order of two byte strings of length <= 4 given as (array, len).
pub fn ref_bytes_lex(a: &[u8; 4], la: usize, b: &[u8; 4], lb: usize) -> Ordering {
    let mut i = 0;
    while i < 4 {
        if i >= la || i >= lb {
            break;
        }
        if a[i] != b[i] {
            return if a[i] < b[i] { Ordering::Less } else { Ordering::Greater };
        }
        i += 1;
    }
    if la < lb { Ordering::Less } else if la > lb { Ordering::Greater } else { Ordering::Equal }
}

/// Order of the deterministic encodings of two short (< 24 bytes) text strings: the head byte is
/// 0x60+len, so shorter sorts first, then content bytewise.  Same result for both orderings.
pub fn ref_text_lex(a: &[u8; 4], la: usize, b: &[u8; 4], lb: usize) -> Ordering {
    if la != lb {
        if la < lb { Ordering::Less } else { Ordering::Greater }
    } else {
        ref_bytes_lex(a, la, b, lb)
    }
}

/// ASCII `String` of length `len` (<= 4) with the given bytes (caller assumes bytes < 0x80).
pub fn ascii_string(bytes: &[u8; 4], len: usize) -> String {
    let mut v = Vec::with_capacity(4);
    let mut i = 0;
    while i < 4 {
        if i < len {
            v.push(bytes[i]);
        }
        i += 1;
    }
    unsafe { String::from_utf8_unchecked(v) }
}

pub fn any_ascii4() -> [u8; 4] {
    let b: [u8; 4] = kani::any();
    kani::assume(b[0] < 0x80 && b[1] < 0x80 && b[2] < 0x80 && b[3] < 0x80);
    b
}

pub fn small_vec(bytes: &[u8; 2], len: usize) -> Vec<u8> {
    let mut v = Vec::with_capacity(2);
    if len > 0 {
        v.push(bytes[0]);
    }
    if len > 1 {
        v.push(bytes[1]);
    }
    v
}

pub fn any_small_vec() -> Vec<u8> {
    let b: [u8; 2] = kani::any();
    let len: usize = kani::any();
    kani::assume(len <= 2);
    small_vec(&b, len)
}

pub fn rev(o: Ordering) -> Ordering {
    match o {
        Ordering::Less => Ordering::Greater,
        Ordering::Equal => Ordering::Equal,
        Ordering::Greater => Ordering::Less,
    }
}
