//! C15 — integers are decoded exactly or rejected as out of range, never wrapped.
//!
//! Scope of this engine: the narrowing sites that are reachable with a single leaf `Value`
//! (`Label`, `RegisteredLabel<T>`, `RegisteredLabelWithPrivate<T>`, `cwt::Timestamp`) over *every*
//! CBOR integer n in [-2^64, 2^64-1], and the encode direction over every i64.  Sites that sit
//! inside an array or map (nonce, key data length, header/key/claims fields) are decided by the
//! mirsym engine (DESIGN.md: Kani cannot consume a `Value` stored in a `Vec`).
//!
//! Oracle (written from the property text, not from coset's code):
//!   n fits i64      -> the decoded integer equals n (registry labels: `Assigned(e)` with
//!                      `e.to_i64() == n` iff the reference table holds n, `PrivateUse(n)` / the
//!                      "unregistered" error otherwise; never the out-of-range error)
//!   n not fitting   -> `Err(CoseError::OutOfRangeIntegerValue)`
use crate::c17_gen::*;
#[allow(unused_imports)]
use crate::stubs::*;
use coset::cbor::value::{Integer, Value};
use coset::cwt::Timestamp;
use coset::iana::{self, EnumI64};
use coset::{AsCborValue, CoseError, Label, RegisteredLabel, RegisteredLabelWithPrivate};

const TWO63: i128 = 1i128 << 63;
const TWO64: i128 = 1i128 << 64;

/// Any integer CBOR can carry: major type 0 (0 ..= 2^64-1) or major type 1 (-2^64 ..= -1).
fn any_cbor_int() -> (i128, Value) {
    let n: i128 = kani::any();
    kani::assume(n >= -TWO64 && n <= TWO64 - 1);
    let i = Integer::try_from(n);
    kani::assume(i.is_ok());
    let i = match i {
        Ok(i) => i,
        Err(_) => unreachable!(),
    };
    // the whole range is constructible (checked by c15_cbor_int_domain)
    (n, Value::Integer(i))
}

fn fits_i64(n: i128) -> bool {
    n >= -TWO63 && n <= TWO63 - 1
}

/// The integer inside a `Value`, or None if it is not an integer.
fn int_of(v: &Value) -> Option<i128> {
    match v {
        Value::Integer(i) => Some(i128::from(*i)),
        _ => None,
    }
}

macro_rules! boundary_covers {
    ($n:expr, $ok:expr, $oor:expr) => {
        kani::cover!($n == TWO63 && $oor);
        kani::cover!($n == -TWO63 - 1 && $oor);
        kani::cover!($n == TWO64 - 1 && $oor);
        kani::cover!($n == -TWO64 && $oor);
        kani::cover!($n == TWO63 - 1 && $ok);
        kani::cover!($n == -TWO63 && $ok);
    };
}

/// The domain itself: every n in [-2^64, 2^64-1] is accepted by the CBOR integer type and reads
/// back as n, so the `assume(i.is_ok())` in `any_cbor_int` excludes nothing.
#[kani::proof]
#[kani::stub(alloc::fmt::format, format_stub)]
fn c15_cbor_int_domain() {
    let n: i128 = kani::any();
    kani::assume(n >= -TWO64 && n <= TWO64 - 1);
    match Integer::try_from(n) {
        Ok(i) => {
            assert!(i128::from(i) == n);
        }
        Err(_) => {
            assert!(false, "CBOR integer type rejects a value of CBOR's range");
        }
    }
    kani::cover!(n == TWO64 - 1);
    kani::cover!(n == -TWO64);
    kani::cover!(n == 0);
}

/// `Label` (map keys of headers, keys, claims; `crit` entries): common/mod.rs narrowing site.
#[kani::proof]
#[kani::stub(alloc::fmt::format, format_stub)]
fn c15_decode_label() {
    let (n, v) = any_cbor_int();
    let r = Label::from_cbor_value(v);
    let oor = matches!(r, Err(CoseError::OutOfRangeIntegerValue));
    let exact = match &r {
        Ok(Label::Int(i)) => (*i as i128) == n,
        _ => false,
    };
    if fits_i64(n) {
        assert!(exact, "in-range label integer not decoded to its exact value");
    } else {
        assert!(oor, "out-of-range label integer not rejected with OutOfRangeIntegerValue");
    }
    assert!(exact != oor);
    boundary_covers!(n, exact, oor);
    kani::cover!(n == 0 && exact);
    kani::cover!(n == -1 && exact);
    kani::cover!(n == 23 && exact);
    kani::cover!(n == 24 && exact);
    kani::cover!(n == -25 && exact);
    kani::cover!(n == 255 && exact);
    kani::cover!(n == 256 && exact);
    kani::cover!(n == 65535 && exact);
    kani::cover!(n == 65536 && exact);
    kani::cover!(n == 0xffff_ffff && exact);
    kani::cover!(n == 0x1_0000_0000 && exact);
    kani::cover!(n == -0x1_0000_0001 && exact);
}

/// `cwt::Timestamp` (exp / nbf / iat): cwt/mod.rs narrowing site.
#[kani::proof]
#[kani::stub(alloc::fmt::format, format_stub)]
fn c15_decode_timestamp() {
    let (n, v) = any_cbor_int();
    let r = Timestamp::from_cbor_value(v);
    let oor = matches!(r, Err(CoseError::OutOfRangeIntegerValue));
    let exact = match &r {
        Ok(Timestamp::WholeSeconds(i)) => (*i as i128) == n,
        _ => false,
    };
    if fits_i64(n) {
        assert!(exact, "in-range timestamp not decoded to its exact value");
    } else {
        assert!(oor, "out-of-range timestamp not rejected with OutOfRangeIntegerValue");
    }
    assert!(exact != oor);
    boundary_covers!(n, exact, oor);
    kani::cover!(n == 0 && exact);
    kani::cover!(n == 0xffff_ffff && exact);
    kani::cover!(n == 0x1_0000_0000 && exact);
}

macro_rules! decode_registered_label {
    ($name:ident, $t:ty, $in_table:ident) => {
        /// `RegisteredLabel<T>`: exact-or-rejected; an in-range integer is never reported as
        /// out of range, an out-of-range one never as "unregistered" or as some registered value.
        #[kani::proof]
        #[kani::stub(alloc::fmt::format, format_stub)]
        fn $name() {
            let (n, v) = any_cbor_int();
            let r = RegisteredLabel::<$t>::from_cbor_value(v);
            let oor = matches!(r, Err(CoseError::OutOfRangeIntegerValue));
            let unreg = matches!(r, Err(CoseError::UnregisteredIanaValue));
            let exact = match &r {
                Ok(RegisteredLabel::Assigned(e)) => (e.to_i64() as i128) == n,
                _ => false,
            };
            if !fits_i64(n) {
                assert!(oor, "out-of-range integer not rejected with OutOfRangeIntegerValue");
            } else if $in_table(n as i64) {
                assert!(exact, "registered integer not decoded to the value it denotes");
            } else {
                assert!(unreg, "unregistered in-range integer not rejected as unregistered");
            }
            assert!((exact as u8) + (oor as u8) + (unreg as u8) == 1);
            boundary_covers!(n, unreg, oor);
            kani::cover!(exact);
            kani::cover!(exact && n != 0);
        }
    };
}
decode_registered_label!(c15_decode_reglabel_header_parameter, iana::HeaderParameter, in_table_HeaderParameter);
decode_registered_label!(c15_decode_reglabel_key_type, iana::KeyType, in_table_KeyType);
decode_registered_label!(c15_decode_reglabel_key_operation, iana::KeyOperation, in_table_KeyOperation);
decode_registered_label!(c15_decode_reglabel_content_format, iana::CoapContentFormat, in_table_CoapContentFormat);

macro_rules! decode_private_label {
    ($name:ident, $t:ty, $in_table:ident) => {
        /// `RegisteredLabelWithPrivate<T>`: exact-or-rejected, private-use integers kept exactly.
        #[kani::proof]
        #[kani::stub(alloc::fmt::format, format_stub)]
        fn $name() {
            let (n, v) = any_cbor_int();
            let r = RegisteredLabelWithPrivate::<$t>::from_cbor_value(v);
            let oor = matches!(r, Err(CoseError::OutOfRangeIntegerValue));
            let unreg = matches!(r, Err(CoseError::UnregisteredIanaNonPrivateValue));
            let assigned = match &r {
                Ok(RegisteredLabelWithPrivate::Assigned(e)) => (e.to_i64() as i128) == n,
                _ => false,
            };
            let private = match &r {
                Ok(RegisteredLabelWithPrivate::PrivateUse(i)) => (*i as i128) == n,
                _ => false,
            };
            if !fits_i64(n) {
                assert!(oor, "out-of-range integer not rejected with OutOfRangeIntegerValue");
            } else if $in_table(n as i64) {
                assert!(assigned, "registered integer not decoded to the value it denotes");
            } else if n < -65536 {
                assert!(private, "private-use integer not kept exactly");
            } else {
                assert!(unreg, "unregistered non-private integer not rejected as such");
            }
            assert!((assigned as u8) + (private as u8) + (oor as u8) + (unreg as u8) == 1);
            kani::cover!(n == TWO63 && oor);
            kani::cover!(n == -TWO63 - 1 && oor);
            kani::cover!(n == TWO64 - 1 && oor);
            kani::cover!(n == -TWO64 && oor);
            kani::cover!(n == TWO63 - 1 && unreg);
            kani::cover!(n == -TWO63 && private);
            kani::cover!(n == -65537 && private);
            kani::cover!(n == -65536 && unreg);
            kani::cover!(assigned && n < 0);
            kani::cover!(assigned && n > 0);
        }
    };
}
decode_private_label!(c15_decode_privlabel_algorithm, iana::Algorithm, in_table_Algorithm);
decode_private_label!(c15_decode_privlabel_cwt_claim, iana::CwtClaimName, in_table_CwtClaimName);

/// The integer a successful `to_cbor_value` produced (None: it failed or gave a non-integer).
/// The item is forgotten rather than dropped: CBMC cannot bound the recursive drop glue of `Value`.
fn encoded_int(r: Result<Value, CoseError>) -> Option<i128> {
    match r {
        Ok(v) => {
            let o = int_of(&v);
            core::mem::forget(v);
            o
        }
        Err(e) => {
            core::mem::forget(e);
            None
        }
    }
}

/// Encode direction, all i64: `Label::Int(i)` and `Timestamp::WholeSeconds(i)` produce a CBOR
/// integer of exactly the value i (which the decode harnesses above map back to i).
#[kani::proof]
#[kani::stub(alloc::fmt::format, format_stub)]
fn c15_encode_label_timestamp() {
    let i: i64 = kani::any();
    assert!(encoded_int(Label::Int(i).to_cbor_value()) == Some(i as i128));
    assert!(encoded_int(Timestamp::WholeSeconds(i).to_cbor_value()) == Some(i as i128));
    kani::cover!(i == i64::MAX);
    kani::cover!(i == i64::MIN);
    kani::cover!(i == -1);
    kani::cover!(i == 0);
}

/// Encode direction for the private-use arm of both registries that have one, all i64.
#[kani::proof]
#[kani::stub(alloc::fmt::format, format_stub)]
fn c15_encode_private_use() {
    let i: i64 = kani::any();
    let a = RegisteredLabelWithPrivate::<iana::Algorithm>::PrivateUse(i);
    assert!(encoded_int(a.to_cbor_value()) == Some(i as i128));
    let c = RegisteredLabelWithPrivate::<iana::CwtClaimName>::PrivateUse(i);
    assert!(encoded_int(c.to_cbor_value()) == Some(i as i128));
    kani::cover!(i == i64::MIN);
    kani::cover!(i == -65537);
    kani::cover!(i == i64::MAX);
}

macro_rules! encode_registered_label {
    ($name:ident, $lab:ident, $t:ty) => {
        /// Encode direction: every registered value of the registry (reached through all i64)
        /// encodes to a CBOR integer of the same value.
        #[kani::proof]
        #[kani::stub(alloc::fmt::format, format_stub)]
        fn $name() {
            let i: i64 = kani::any();
            if let Some(e) = <$t>::from_i64(i) {
                let l = $lab::<$t>::Assigned(e);
                assert!(encoded_int(l.to_cbor_value()) == Some(i as i128));
                kani::cover!(i != 0);
            }
        }
    };
}
encode_registered_label!(c15_encode_reglabel_header_parameter, RegisteredLabel, iana::HeaderParameter);
encode_registered_label!(c15_encode_reglabel_key_type, RegisteredLabel, iana::KeyType);
encode_registered_label!(c15_encode_reglabel_key_operation, RegisteredLabel, iana::KeyOperation);
encode_registered_label!(c15_encode_reglabel_content_format, RegisteredLabel, iana::CoapContentFormat);
encode_registered_label!(c15_encode_privlabel_algorithm, RegisteredLabelWithPrivate, iana::Algorithm);
encode_registered_label!(c15_encode_privlabel_cwt_claim, RegisteredLabelWithPrivate, iana::CwtClaimName);
