//! C17 — registry names and integers correspond one-to-one with the IANA assignments.
//!
//! Reference side: /verif/iana_ref.json (transcribed from the IANA registries / RFCs, not from
//! coset), compiled into `c17_gen.rs` by /verif/lib/gen_c17.py.
//!
//! Per registry E:
//!   (1) `c17_inverse_<e>`   all i64 i:  from_i64(i) = Some(e)  <=>  i in the reference table, and
//!                           then e.to_i64() == i (so to_i64 . from_i64 = id, no two names share an
//!                           integer, and coset holds no value the reference does not know);
//!   (2) `c17_rows_*`        every reference row (Name, num): from_i64(num) == Some(Name) and
//!                           Name.to_i64() == num (each name carries the registered integer);
//!   (3) `c17_private_<e>`   all i64 i:  is_private(i) == (i < -65536)   (four registries);
//!   (4) `c17_classify_<e>`  every CBOR integer n in [-2^64, 2^64-1] at each label-typed position
//!                           is classified as registered / private / rejected exactly as the
//!                           reference says; `c17_text_<e>`: text labels are always kept.
use crate::c17_gen::*;
#[allow(unused_imports)]
use crate::stubs::*;
use crate::util::*;
use coset::cbor::value::{Integer, Value};
use coset::iana::{self, EnumI64, WithPrivateRange};
use coset::{AsCborValue, CoseError, RegisteredLabel, RegisteredLabelWithPrivate};

const TWO63: i128 = 1i128 << 63;
const TWO64: i128 = 1i128 << 64;

fn any_cbor_int() -> (i128, Value) {
    let n: i128 = kani::any();
    kani::assume(n >= -TWO64 && n <= TWO64 - 1);
    let i = Integer::try_from(n);
    kani::assume(i.is_ok()); // excludes nothing: see c15_cbor_int_domain
    match i {
        Ok(i) => (n, Value::Integer(i)),
        Err(_) => unreachable!(),
    }
}

fn fits_i64(n: i128) -> bool {
    n >= -TWO63 && n <= TWO63 - 1
}

// ---------------------------------------------------------------------------------------------
// (1) from_i64 / to_i64 against the reference set, all i64
// ---------------------------------------------------------------------------------------------
macro_rules! inverse {
    ($name:ident, $t:ty, $in_table:ident) => {
        #[kani::proof]
        #[kani::stub(alloc::fmt::format, format_stub)]
        fn $name() {
            let i: i64 = kani::any();
            match <$t>::from_i64(i) {
                Some(e) => {
                    assert!($in_table(i), "coset names an integer the registry does not assign");
                    assert!(e.to_i64() == i, "to_i64 is not the inverse of from_i64");
                    // the name found is the name from_i64 finds again (no two names per integer)
                    assert!(<$t>::from_i64(e.to_i64()) == Some(e));
                }
                None => {
                    assert!(!$in_table(i), "registered integer has no name in coset");
                }
            }
            kani::cover!(<$t>::from_i64(i).is_some());
            kani::cover!(<$t>::from_i64(i).is_none());
            kani::cover!(<$t>::from_i64(i).is_none() && i == i64::MIN);
            kani::cover!(<$t>::from_i64(i).is_none() && i == i64::MAX);
        }
    };
}
inverse!(c17_inverse_header_parameter, iana::HeaderParameter, in_table_HeaderParameter);
inverse!(c17_inverse_header_algorithm_parameter, iana::HeaderAlgorithmParameter, in_table_HeaderAlgorithmParameter);
inverse!(c17_inverse_algorithm, iana::Algorithm, in_table_Algorithm);
inverse!(c17_inverse_key_parameter, iana::KeyParameter, in_table_KeyParameter);
inverse!(c17_inverse_okp_key_parameter, iana::OkpKeyParameter, in_table_OkpKeyParameter);
inverse!(c17_inverse_ec2_key_parameter, iana::Ec2KeyParameter, in_table_Ec2KeyParameter);
inverse!(c17_inverse_rsa_key_parameter, iana::RsaKeyParameter, in_table_RsaKeyParameter);
inverse!(c17_inverse_symmetric_key_parameter, iana::SymmetricKeyParameter, in_table_SymmetricKeyParameter);
inverse!(c17_inverse_hss_lms_key_parameter, iana::HssLmsKeyParameter, in_table_HssLmsKeyParameter);
inverse!(c17_inverse_walnut_dsa_key_parameter, iana::WalnutDsaKeyParameter, in_table_WalnutDsaKeyParameter);
inverse!(c17_inverse_key_type, iana::KeyType, in_table_KeyType);
inverse!(c17_inverse_elliptic_curve, iana::EllipticCurve, in_table_EllipticCurve);
inverse!(c17_inverse_key_operation, iana::KeyOperation, in_table_KeyOperation);
inverse!(c17_inverse_cbor_tag, iana::CborTag, in_table_CborTag);
inverse!(c17_inverse_content_format, iana::CoapContentFormat, in_table_CoapContentFormat);
inverse!(c17_inverse_cwt_claim, iana::CwtClaimName, in_table_CwtClaimName);

// ---------------------------------------------------------------------------------------------
// (2) every reference row, both directions (concrete)
// ---------------------------------------------------------------------------------------------
macro_rules! rows {
    ($name:ident, $($check:ident),+) => {
        #[kani::proof]
        #[kani::stub(alloc::fmt::format, format_stub)]
        fn $name() {
            $($check();)+
            kani::cover!(true);
        }
    };
}
rows!(c17_rows_header, check_rows_HeaderParameter, check_rows_HeaderAlgorithmParameter);
rows!(c17_rows_algorithm, check_rows_Algorithm);
rows!(
    c17_rows_key,
    check_rows_KeyParameter,
    check_rows_OkpKeyParameter,
    check_rows_Ec2KeyParameter,
    check_rows_RsaKeyParameter,
    check_rows_SymmetricKeyParameter,
    check_rows_HssLmsKeyParameter,
    check_rows_WalnutDsaKeyParameter,
    check_rows_KeyType,
    check_rows_EllipticCurve,
    check_rows_KeyOperation
);
rows!(c17_rows_tag_claim, check_rows_CborTag, check_rows_CwtClaimName);
rows!(c17_rows_content_format, check_rows_CoapContentFormat);

/// The reference table is complete with respect to the crate's registry list: the four registries
/// with a private-use range in the reference are exactly the four that implement the predicate
/// (the `private!` instantiations below would not compile otherwise), and the row counts are the
/// ones the generator saw.
#[kani::proof]
#[kani::stub(alloc::fmt::format, format_stub)]
fn c17_rows_reference_shape() {
    assert!(PRIVATE_USE.len() == 4);
    assert!(PRIVATE_USE[0] == "HeaderParameter");
    assert!(PRIVATE_USE[1] == "Algorithm");
    assert!(PRIVATE_USE[2] == "EllipticCurve");
    assert!(PRIVATE_USE[3] == "CwtClaimName");
    assert!(ROWS_HeaderParameter > 0 && ROWS_Algorithm > 0 && ROWS_CoapContentFormat > 0);
    kani::cover!(true);
}

// ---------------------------------------------------------------------------------------------
// (3) private-use predicate, all i64
// ---------------------------------------------------------------------------------------------
macro_rules! private {
    ($name:ident, $t:ty) => {
        #[kani::proof]
        #[kani::stub(alloc::fmt::format, format_stub)]
        fn $name() {
            let i: i64 = kani::any();
            assert!(<$t>::is_private(i) == (i < -65536));
            kani::cover!(i == -65536 && !<$t>::is_private(i));
            kani::cover!(i == -65537 && <$t>::is_private(i));
            kani::cover!(i == i64::MIN && <$t>::is_private(i));
            kani::cover!(i == i64::MAX && !<$t>::is_private(i));
        }
    };
}
private!(c17_private_header_parameter, iana::HeaderParameter);
private!(c17_private_algorithm, iana::Algorithm);
private!(c17_private_elliptic_curve, iana::EllipticCurve);
private!(c17_private_cwt_claim, iana::CwtClaimName);

// ---------------------------------------------------------------------------------------------
// (4) label classification, all CBOR integers; text always kept
// ---------------------------------------------------------------------------------------------
macro_rules! classify_registered {
    ($name:ident, $tname:ident, $t:ty, $in_table:ident) => {
        #[kani::proof]
        #[kani::stub(alloc::fmt::format, format_stub)]
        fn $name() {
            let (n, v) = any_cbor_int();
            let r = RegisteredLabel::<$t>::from_cbor_value(v);
            let assigned = match &r {
                Ok(RegisteredLabel::Assigned(e)) => (e.to_i64() as i128) == n,
                _ => false,
            };
            let unreg = matches!(r, Err(CoseError::UnregisteredIanaValue));
            let oor = matches!(r, Err(CoseError::OutOfRangeIntegerValue));
            let fits = fits_i64(n);
            let known = fits && $in_table(n as i64);
            assert!(assigned == known);
            assert!(unreg == (fits && !known));
            assert!(oor == !fits);
            kani::cover!(assigned);
            kani::cover!(unreg && n > 0);
            kani::cover!(unreg && n < -65536);
            kani::cover!(oor && n > 0);
            kani::cover!(oor && n < 0);
        }

        #[kani::proof]
        #[kani::unwind(6)]
        #[kani::stub(alloc::fmt::format, format_stub)]
        fn $tname() {
            let tb = any_ascii4();
            let tl: usize = kani::any();
            kani::assume(tl <= 2);
            let r = RegisteredLabel::<$t>::from_cbor_value(Value::Text(ascii_string(&tb, tl)));
            match r {
                Ok(RegisteredLabel::Text(s)) => {
                    let b = s.as_bytes();
                    assert!(b.len() == tl);
                    assert!(tl < 1 || b[0] == tb[0]);
                    assert!(tl < 2 || b[1] == tb[1]);
                }
                _ => {
                    assert!(false, "text label not kept as text");
                }
            }
            kani::cover!(tl == 0);
            kani::cover!(tl == 2);
        }
    };
}
classify_registered!(c17_classify_header_parameter, c17_text_header_parameter, iana::HeaderParameter, in_table_HeaderParameter);
classify_registered!(c17_classify_key_type, c17_text_key_type, iana::KeyType, in_table_KeyType);
classify_registered!(c17_classify_key_operation, c17_text_key_operation, iana::KeyOperation, in_table_KeyOperation);
classify_registered!(c17_classify_content_format, c17_text_content_format, iana::CoapContentFormat, in_table_CoapContentFormat);

macro_rules! classify_private {
    ($name:ident, $tname:ident, $t:ty, $in_table:ident) => {
        #[kani::proof]
        #[kani::stub(alloc::fmt::format, format_stub)]
        fn $name() {
            let (n, v) = any_cbor_int();
            let r = RegisteredLabelWithPrivate::<$t>::from_cbor_value(v);
            let assigned = match &r {
                Ok(RegisteredLabelWithPrivate::Assigned(e)) => (e.to_i64() as i128) == n,
                _ => false,
            };
            let private = match &r {
                Ok(RegisteredLabelWithPrivate::PrivateUse(i)) => (*i as i128) == n,
                _ => false,
            };
            let unreg = matches!(r, Err(CoseError::UnregisteredIanaNonPrivateValue));
            let oor = matches!(r, Err(CoseError::OutOfRangeIntegerValue));
            let fits = fits_i64(n);
            let known = fits && $in_table(n as i64);
            assert!(assigned == known);
            assert!(private == (fits && !known && n < -65536));
            assert!(unreg == (fits && !known && n >= -65536));
            assert!(oor == !fits);
            kani::cover!(assigned && n < 0);
            kani::cover!(assigned && n > 0);
            kani::cover!(private && n == -65537);
            kani::cover!(private && n == -TWO63);
            kani::cover!(unreg && n == -65536);
            kani::cover!(unreg && n > 0);
            kani::cover!(oor && n > 0);
            kani::cover!(oor && n < 0);
        }

        #[kani::proof]
        #[kani::unwind(6)]
        #[kani::stub(alloc::fmt::format, format_stub)]
        fn $tname() {
            let tb = any_ascii4();
            let tl: usize = kani::any();
            kani::assume(tl <= 2);
            let r = RegisteredLabelWithPrivate::<$t>::from_cbor_value(Value::Text(ascii_string(&tb, tl)));
            match r {
                Ok(RegisteredLabelWithPrivate::Text(s)) => {
                    let b = s.as_bytes();
                    assert!(b.len() == tl);
                    assert!(tl < 1 || b[0] == tb[0]);
                    assert!(tl < 2 || b[1] == tb[1]);
                }
                _ => {
                    assert!(false, "text label not kept as text");
                }
            }
            kani::cover!(tl == 0);
            kani::cover!(tl == 2);
        }
    };
}
classify_private!(c17_classify_algorithm, c17_text_algorithm, iana::Algorithm, in_table_Algorithm);
classify_private!(c17_classify_cwt_claim, c17_text_cwt_claim, iana::CwtClaimName, in_table_CwtClaimName);
