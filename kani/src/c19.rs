//! C19 — builders apply exactly the documented effect of each call, in any order.
//!
//! Every sequence harness drives one coset builder with `STEPS` symbolic calls (each step picks
//! one public method and symbolic arguments) and, in lock-step, a SHADOW MODEL written here from
//! the documented effect of each call (never by calling coset).  After `build()` *every* public
//! field of the built value is compared with the model, so a setter that also touches (or fails to
//! touch) another field is caught.
//!
//! Arguments are described by small `Copy` "codes" (`Bytes`, `Txt`, `Val`, `Hdr`, `Sig`, `Rcp`)
//! from which the real coset argument is made (`mk`) and against which a built field is compared
//! (`is`) without loops and without `Value`'s recursive `==`.
//!
//! "Must panic" guards: `#[kani::should_panic]` alone only shows that *some* input panics.  The
//! guard harnesses therefore call `returned_instead_of_panicking()` after the guarded call: it
//! trips a non-panic check class (CBMC's NaN check), which `should_panic` rejects.  The
//! harness passes iff the call panics for EVERY input admitted by the assumption.
//!
//! Not covered here (other properties; they reach `into_writer`, which CBMC cannot execute):
//! `create_signature`, `create_tag`, `create_ciphertext`, `add_created_signature`, ... helpers.
//! Not constructible: a builder whose protected header already has `original_data = Some(..)`
//! (builders are tuple structs with a private field), so "discards retained wire bytes" is checked
//! as "after `protected(h)` the built `original_data` is `None`", from the only reachable states.
use crate::stubs::*;
use crate::util::*;
use alloc::string::String;
use alloc::vec::Vec;
use coset::cbor::value::Value;
use coset::cwt::{ClaimName, ClaimsSet, ClaimsSetBuilder, Timestamp};
use coset::iana::{self, EnumI64};
use coset::{
    Algorithm, ContentType, CoseEncrypt0Builder, CoseEncryptBuilder, CoseKdfContextBuilder, CoseKey,
    CoseKeyBuilder, CoseMac0Builder, CoseMacBuilder, CoseRecipient, CoseRecipientBuilder,
    CoseSign1Builder, CoseSignBuilder, CoseSignature, CoseSignatureBuilder, Header, HeaderBuilder,
    KeyOperation, KeyType, Label, Nonce, PartyInfo, PartyInfoBuilder, ProtectedHeader,
    RegisteredLabel, SuppPubInfo, SuppPubInfoBuilder,
};

// ---------------------------------------------------------------------------------------------
// Argument codes
// ---------------------------------------------------------------------------------------------

/// Capacity of the model's append lists (>= the longest sequence used below).
const CAP: usize = 5;

/// Fixed-capacity append list (cheaper for CBMC than a `Vec` in the model).
#[derive(Clone, Copy)]
struct List<T: Copy> {
    n: usize,
    items: [T; CAP],
}

impl<T: Copy> List<T> {
    fn new(fill: T) -> Self {
        List { n: 0, items: [fill; CAP] }
    }
    fn push(&mut self, t: T) {
        self.items[self.n] = t;
        self.n += 1;
    }
}

/// A byte string of length 0..=2.
#[derive(Clone, Copy)]
struct Bytes {
    b: [u8; 2],
    len: usize,
}

impl Bytes {
    const EMPTY: Bytes = Bytes { b: [0; 2], len: 0 };
    fn any() -> Self {
        let b: [u8; 2] = kani::any();
        let len: usize = kani::any();
        kani::assume(len <= 2);
        Bytes { b, len }
    }
    fn mk(&self) -> Vec<u8> {
        small_vec(&self.b, self.len)
    }
    fn is(&self, v: &[u8]) -> bool {
        v.len() == self.len && (self.len < 1 || v[0] == self.b[0]) && (self.len < 2 || v[1] == self.b[1])
    }
    fn same(&self, o: &Bytes) -> bool {
        self.len == o.len && (self.len < 1 || self.b[0] == o.b[0]) && (self.len < 2 || self.b[1] == o.b[1])
    }
    fn opt_is(m: &Option<Bytes>, v: &Option<Vec<u8>>) -> bool {
        match (m, v) {
            (None, None) => true,
            (Some(m), Some(v)) => m.is(v),
            _ => false,
        }
    }
}

/// An ASCII text of length 0..=2.
#[derive(Clone, Copy)]
struct Txt {
    b: [u8; 4],
    len: usize,
}

impl Txt {
    const EMPTY: Txt = Txt { b: [0; 4], len: 0 };
    fn any() -> Self {
        let b = any_ascii4();
        let len: usize = kani::any();
        kani::assume(len <= 2);
        Txt { b, len }
    }
    fn mk(&self) -> String {
        ascii_string(&self.b, self.len)
    }
    fn is(&self, s: &str) -> bool {
        let v = s.as_bytes();
        v.len() == self.len && (self.len < 1 || v[0] == self.b[0]) && (self.len < 2 || v[1] == self.b[1])
    }
    fn opt_is(m: &Option<Txt>, v: &Option<String>) -> bool {
        match (m, v) {
            (None, None) => true,
            (Some(m), Some(v)) => m.is(v),
            _ => false,
        }
    }
}

/// A leaf `Value` (only identity matters to a builder).
#[derive(Clone, Copy)]
enum Val {
    Null,
    Bool(bool),
    Int(i64),
    Bytes(Bytes),
}

impl Val {
    /// Null / Bool / Integer palette for caller-supplied values.
    fn any() -> Self {
        let k: u8 = kani::any();
        if k == 0 {
            Val::Null
        } else if k == 1 {
            Val::Bool(kani::any())
        } else {
            Val::Int(kani::any())
        }
    }
    fn mk(&self) -> Value {
        match self {
            Val::Null => Value::Null,
            Val::Bool(b) => Value::Bool(*b),
            Val::Int(i) => Value::Integer((*i).into()),
            Val::Bytes(b) => Value::Bytes(b.mk()),
        }
    }
    fn is(&self, v: &Value) -> bool {
        match (self, v) {
            (Val::Null, Value::Null) => true,
            (Val::Bool(a), Value::Bool(b)) => a == b,
            (Val::Int(a), Value::Integer(b)) => i128::from(*b) == *a as i128,
            (Val::Bytes(a), Value::Bytes(b)) => a.is(b),
            _ => false,
        }
    }
}

/// Every value of an IANA registry enum (through its `from_i64`, over all of `i64`).
fn any_enum<T: EnumI64>() -> T {
    let i: i64 = kani::any();
    let e = T::from_i64(i);
    kani::assume(e.is_some());
    e.unwrap()
}

fn alg_is(m: &Option<iana::Algorithm>, v: &Option<Algorithm>) -> bool {
    match (m, v) {
        (None, None) => true,
        (Some(a), Some(Algorithm::Assigned(b))) => a == b,
        _ => false,
    }
}

/// A `Header` argument: key id, IV and optional algorithm set, everything else empty.
#[derive(Clone, Copy)]
struct Hdr {
    kid: Bytes,
    iv: Bytes,
    alg: Option<iana::Algorithm>,
}

impl Hdr {
    const EMPTY: Hdr = Hdr { kid: Bytes::EMPTY, iv: Bytes::EMPTY, alg: None };
    fn any() -> Self {
        let alg = if kani::any() {
            Some(if kani::any() { iana::Algorithm::ES256 } else { iana::Algorithm::A128GCM })
        } else {
            None
        };
        Hdr { kid: Bytes::any(), iv: Bytes::any(), alg }
    }
    fn mk(&self) -> Header {
        Header {
            alg: self.alg.map(Algorithm::Assigned),
            key_id: self.kid.mk(),
            iv: self.iv.mk(),
            ..Default::default()
        }
    }
    fn is(&self, h: &Header) -> bool {
        alg_is(&self.alg, &h.alg)
            && h.crit.is_empty()
            && h.content_type.is_none()
            && self.kid.is(&h.key_id)
            && self.iv.is(&h.iv)
            && h.partial_iv.is_empty()
            && h.counter_signatures.is_empty()
            && h.rest.is_empty()
    }
    fn differs(&self, o: &Hdr) -> bool {
        !self.kid.same(&o.kid) || !self.iv.same(&o.iv) || self.alg != o.alg
    }
    /// `p` is exactly what `protected(self)` documents: no retained wire bytes, header = self.
    fn is_protected(&self, p: &ProtectedHeader) -> bool {
        p.original_data.is_none() && self.is(&p.header)
    }
}

/// A `CoseSignature` argument: signature bytes and unprotected key id.
#[derive(Clone, Copy)]
struct Sig {
    sig: Bytes,
    kid: Bytes,
}

impl Sig {
    const EMPTY: Sig = Sig { sig: Bytes::EMPTY, kid: Bytes::EMPTY };
    fn any() -> Self {
        Sig { sig: Bytes::any(), kid: Bytes::any() }
    }
    fn mk(&self) -> CoseSignature {
        CoseSignature {
            unprotected: Header { key_id: self.kid.mk(), ..Default::default() },
            signature: self.sig.mk(),
            ..Default::default()
        }
    }
    fn is(&self, s: &CoseSignature) -> bool {
        Hdr::EMPTY.is_protected(&s.protected)
            && Hdr { kid: self.kid, ..Hdr::EMPTY }.is(&s.unprotected)
            && self.sig.is(&s.signature)
    }
}

/// A `CoseRecipient` argument: optional ciphertext and unprotected key id.
#[derive(Clone, Copy)]
struct Rcp {
    ct: Option<Bytes>,
    kid: Bytes,
}

impl Rcp {
    const EMPTY: Rcp = Rcp { ct: None, kid: Bytes::EMPTY };
    fn any() -> Self {
        Rcp { ct: if kani::any() { Some(Bytes::any()) } else { None }, kid: Bytes::any() }
    }
    fn mk(&self) -> CoseRecipient {
        CoseRecipient {
            unprotected: Header { key_id: self.kid.mk(), ..Default::default() },
            ciphertext: self.ct.map(|c| c.mk()),
            ..Default::default()
        }
    }
    fn is(&self, r: &CoseRecipient) -> bool {
        Hdr::EMPTY.is_protected(&r.protected)
            && Hdr { kid: self.kid, ..Hdr::EMPTY }.is(&r.unprotected)
            && Bytes::opt_is(&self.ct, &r.ciphertext)
            && r.recipients.is_empty()
    }
}

/// Reached only when a call that is documented to panic returned instead.  Under Kani the
/// multiplication `x * 0` (x = inf) fails CBMC's NaN check, which is not a panic, so a
/// `#[kani::should_panic]` harness that can reach this line FAILS ("failures other than panics");
/// natively (concrete playback, where `should_panic` is inert and a NaN is harmless) the `panic!`
/// makes the replayed test fail.
#[inline(never)]
fn returned_instead_of_panicking() {
    let x: f64 = kani::any();
    let nan = x * 0.0; // NaN for x = +-inf
    core::hint::black_box(nan);
    panic!("C19: the call returned although its documented panic was required");
}

// ---------------------------------------------------------------------------------------------
// HeaderBuilder
// ---------------------------------------------------------------------------------------------

#[derive(Clone, Copy)]
enum Crit {
    Assigned(iana::HeaderParameter),
    Text(Txt),
}

impl Crit {
    fn is(&self, v: &RegisteredLabel<iana::HeaderParameter>) -> bool {
        match (self, v) {
            (Crit::Assigned(a), RegisteredLabel::Assigned(b)) => a == b,
            (Crit::Text(a), RegisteredLabel::Text(b)) => a.is(b),
            _ => false,
        }
    }
}

#[derive(Clone, Copy)]
enum Ctype {
    None,
    Format(iana::CoapContentFormat),
    Text(Txt),
}

impl Ctype {
    fn is(&self, v: &Option<ContentType>) -> bool {
        match (self, v) {
            (Ctype::None, None) => true,
            (Ctype::Format(a), Some(ContentType::Assigned(b))) => a == b,
            (Ctype::Text(a), Some(ContentType::Text(b))) => a.is(b),
            _ => false,
        }
    }
}

#[derive(Clone, Copy)]
enum Lab {
    Int(i64),
    Text(Txt),
}

impl Lab {
    fn is(&self, v: &Label) -> bool {
        match (self, v) {
            (Lab::Int(a), Label::Int(b)) => a == b,
            (Lab::Text(a), Label::Text(b)) => a.is(b),
            _ => false,
        }
    }
}

/// Shadow model of `Header` as a builder can produce it.
struct MHeader {
    alg: Option<iana::Algorithm>,
    crit: List<Crit>,
    content_type: Ctype,
    key_id: Bytes,
    iv: Bytes,
    partial_iv: Bytes,
    counter_signatures: List<Sig>,
    rest: List<(Lab, Val)>,
}

impl MHeader {
    fn new() -> Self {
        MHeader {
            alg: None,
            crit: List::new(Crit::Text(Txt::EMPTY)),
            content_type: Ctype::None,
            key_id: Bytes::EMPTY,
            iv: Bytes::EMPTY,
            partial_iv: Bytes::EMPTY,
            counter_signatures: List::new(Sig::EMPTY),
            rest: List::new((Lab::Int(0), Val::Null)),
        }
    }
    fn check(&self, h: &Header, upto: usize) {
        assert!(alg_is(&self.alg, &h.alg));
        assert!(h.crit.len() == self.crit.n);
        assert!(self.content_type.is(&h.content_type));
        assert!(self.key_id.is(&h.key_id));
        assert!(self.iv.is(&h.iv));
        assert!(self.partial_iv.is(&h.partial_iv));
        assert!(h.counter_signatures.len() == self.counter_signatures.n);
        assert!(h.rest.len() == self.rest.n);
        let mut k = 0;
        while k < upto {
            if k < self.crit.n {
                assert!(self.crit.items[k].is(&h.crit[k]));
            }
            if k < self.counter_signatures.n {
                assert!(self.counter_signatures.items[k].is(&h.counter_signatures[k]));
            }
            if k < self.rest.n {
                assert!(self.rest.items[k].0.is(&h.rest[k].0));
                assert!(self.rest.items[k].1.is(&h.rest[k].1));
            }
            k += 1;
        }
    }
}

const H_KEY_ID: u8 = 0;
const H_ALGORITHM: u8 = 1;
const H_ADD_CRITICAL: u8 = 2;
const H_ADD_CRITICAL_LABEL: u8 = 3;
const H_CONTENT_FORMAT: u8 = 4;
const H_CONTENT_TYPE: u8 = 5;
const H_IV: u8 = 6;
const H_PARTIAL_IV: u8 = 7;
const H_ADD_COUNTER_SIGNATURE: u8 = 8;
const H_VALUE: u8 = 9;
const H_TEXT_VALUE: u8 = 10;
const H_OPS: u8 = 11;

/// The documented reserved range of `HeaderBuilder::value` per the property text (labels 1-7;
/// the doc comment's "[1, 6]" predates the counter-signature field, label 7).
fn header_label_reserved(l: i64) -> bool {
    1 <= l && l <= 7
}

/// History of the calls made so far (for the `cover!` witnesses).
#[derive(Clone, Copy)]
struct Hist {
    n: usize,
    op: [u8; CAP],
    nonempty: [bool; CAP],
}

impl Hist {
    fn new() -> Self {
        Hist { n: 0, op: [0xff; CAP], nonempty: [false; CAP] }
    }
    fn then(mut self, op: u8, nonempty: bool) -> Self {
        self.op[self.n] = op;
        self.nonempty[self.n] = nonempty;
        self.n += 1;
        self
    }
    fn last(&self) -> usize {
        self.n - 1
    }
}

/// Apply `left` more symbolic calls to `b` (and their documented effect to `m`), then build and
/// compare.  Written as a recursion so that every call sequence is checked on its own path: CBMC
/// merges heap state at control-flow joins, and a merged `Vec` (allocated or not, 0 or 1
/// elements) makes every later `push` explore `realloc` with symbolic sizes.
fn header_go(b: HeaderBuilder, mut m: MHeader, hist: Hist, left: usize) {
    if left == 0 {
        header_done(b.build(), &m, &hist);
        return;
    }
    let op: u8 = kani::any();
    kani::assume(op < H_OPS);
    match op {
        H_KEY_ID => {
            let v = Bytes::any();
            m.key_id = v;
            header_go(b.key_id(v.mk()), m, hist.then(op, v.len > 0), left - 1)
        }
        H_ALGORITHM => {
            let a: iana::Algorithm = any_enum();
            m.alg = Some(a);
            header_go(b.algorithm(a), m, hist.then(op, true), left - 1)
        }
        H_ADD_CRITICAL => {
            let p: iana::HeaderParameter = any_enum();
            m.crit.push(Crit::Assigned(p));
            header_go(b.add_critical(p), m, hist.then(op, true), left - 1)
        }
        H_ADD_CRITICAL_LABEL => {
            if kani::any() {
                let p: iana::HeaderParameter = any_enum();
                m.crit.push(Crit::Assigned(p));
                header_go(b.add_critical_label(RegisteredLabel::Assigned(p)), m, hist.then(op, true), left - 1)
            } else {
                let t = Txt::any();
                m.crit.push(Crit::Text(t));
                header_go(b.add_critical_label(RegisteredLabel::Text(t.mk())), m, hist.then(op, false), left - 1)
            }
        }
        H_CONTENT_FORMAT => {
            let f: iana::CoapContentFormat = any_enum();
            m.content_type = Ctype::Format(f);
            header_go(b.content_format(f), m, hist.then(op, true), left - 1)
        }
        H_CONTENT_TYPE => {
            let t = Txt::any();
            m.content_type = Ctype::Text(t);
            header_go(b.content_type(t.mk()), m, hist.then(op, t.len > 0), left - 1)
        }
        H_IV => {
            let v = Bytes::any();
            m.iv = v;
            m.partial_iv = Bytes::EMPTY;
            header_go(b.iv(v.mk()), m, hist.then(op, v.len > 0), left - 1)
        }
        H_PARTIAL_IV => {
            let v = Bytes::any();
            m.partial_iv = v;
            m.iv = Bytes::EMPTY;
            header_go(b.partial_iv(v.mk()), m, hist.then(op, v.len > 0), left - 1)
        }
        H_ADD_COUNTER_SIGNATURE => {
            let g = Sig::any();
            m.counter_signatures.push(g);
            header_go(b.add_counter_signature(g.mk()), m, hist.then(op, true), left - 1)
        }
        H_VALUE => {
            let l: i64 = kani::any();
            kani::assume(!header_label_reserved(l));
            let v = Val::any();
            m.rest.push((Lab::Int(l), v));
            header_go(b.value(l, v.mk()), m, hist.then(op, true), left - 1)
        }
        _ => {
            let t = Txt::any();
            let v = Val::any();
            m.rest.push((Lab::Text(t), v));
            header_go(b.text_value(t.mk(), v.mk()), m, hist.then(op, true), left - 1)
        }
    }
}

fn header_done(h: Header, m: &MHeader, hist: &Hist) {
    m.check(&h, hist.n);
    // the consequence named in the property text
    assert!(h.iv.is_empty() || h.partial_iv.is_empty());

    // witnesses
    let (op, ne, z) = (&hist.op, &hist.nonempty, hist.last());
    kani::cover!(op[0] == H_IV && ne[0] && op[1] == H_PARTIAL_IV && ne[1] && h.iv.is_empty());
    kani::cover!(op[0] == H_PARTIAL_IV && ne[0] && op[1] == H_IV && ne[1] && h.partial_iv.is_empty());
    kani::cover!(op[0] == H_IV && ne[0] && op[z] == H_PARTIAL_IV && !ne[z] && h.iv.is_empty() && h.partial_iv.is_empty());
    kani::cover!(op[0] == H_KEY_ID && ne[0] && op[z] == H_KEY_ID && !ne[z]);
    kani::cover!(op[0] == H_CONTENT_FORMAT && op[1] == H_CONTENT_TYPE);
    kani::cover!(h.rest.len() == hist.n && h.rest.len() >= 2 && matches!(h.rest[0].0, Label::Int(0)) && matches!(h.rest[1].0, Label::Int(8)));
    kani::cover!(h.rest.len() > 0 && matches!(h.rest[0].0, Label::Int(i64::MIN)));
    kani::cover!(h.crit.len() == hist.n);
    kani::cover!(h.counter_signatures.len() == 2);
    core::mem::forget(h);
}

#[kani::proof]
#[kani::unwind(7)]
#[kani::stub(alloc::fmt::format, format_stub)]
fn c19_header_seq2() {
    header_go(HeaderBuilder::new(), MHeader::new(), Hist::new(), 2);
}

#[kani::proof]
#[kani::unwind(7)]
#[kani::stub(alloc::fmt::format, format_stub)]
fn c19x_header_seq3() {
    header_go(HeaderBuilder::new(), MHeader::new(), Hist::new(), 3);
}

/// `value(l, _)` with a reserved label (1..=7) panics, whatever was called before.
#[kani::proof]
#[kani::should_panic]
#[kani::unwind(7)]
#[kani::stub(alloc::fmt::format, format_stub)]
fn c19_header_value_reserved_panics() {
    let l: i64 = kani::any();
    kani::assume(header_label_reserved(l));
    let mut b = HeaderBuilder::new();
    if kani::any() {
        b = b.key_id(Bytes::any().mk());
    }
    if kani::any() {
        b = b.value(0, Value::Null);
    }
    let b = b.value(l, Val::any().mk());
    returned_instead_of_panicking();
    core::mem::forget(b);
}
