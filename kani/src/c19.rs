//! C19 — builders apply exactly the documented effect of each call, in any order.
//!
//! Every harness drives one coset builder with a sequence of public-method calls whose arguments
//! are symbolic and, in lock-step, a SHADOW MODEL written here from the *documented* effect of each
//! call (never by calling coset).  After `build()` EVERY public field of the built value is
//! compared with the model (the built struct is destructured exhaustively, so a new field cannot be
//! forgotten), hence a setter that also touches, or fails to touch, another field is caught.
//!
//! Two sequence shapes are used, dictated by what CBMC can execute (measured):
//!
//! * `*_setters_seq3` (quick) / `c19x_*_seq4` (thorough): every step picks one of the builder's
//!   *field setters* by `kani::any()`; all orders of all setters up to that length are explored.
//! * `*_chain*` / `*_adder*`: the *adders* (`add_*`, `value`, `text_value`, `param`, `claim`, ...:
//!   methods that `Vec::push`) sit at fixed positions of the sequence, with symbolic setter steps
//!   before/between them or with the other methods in a fixed order.  A symbolic choice *between*
//!   pushing and not pushing merges `Vec` states (allocated or not, capacity 0 or 4) and every
//!   later `push` then explores `realloc` with symbolic sizes: 2 symbolic steps over all 11
//!   `HeaderBuilder` methods need > 19 M SAT variables and do not finish in 10 minutes (neither
//!   does a path-per-sequence recursion), so the order of adders is enumerated by the harness text.
//! * `BTreeSet::insert` into a NON-EMPTY set does not finish either (10 min, even with concrete
//!   keys), so `add_key_op` is exercised once per sequence (see `c19_key_add_key_op`).
//! * `CoseKdfContext` has private fields and no tractable observer but `==`: see `MKdf`.
//!
//! Cost note: every satisfied `cover!` makes CBMC build a trace of the whole path (5-40 s here),
//! which is why each harness carries only the one or two witnesses that matter most.
//!
//! Arguments are described by small `Copy` "codes" (`Bytes`, `Txt`, `Val`, `Hdr`, `Sig`, `Rcp`, ...)
//! from which the real coset argument is made (`mk`) and against which a built field is compared
//! (`is`) without loops and without `Value`'s recursive `==`.
//!
//! "Must panic" guards: `#[kani::should_panic]` alone only shows that *some* input panics.  The
//! guard harnesses therefore call `returned_instead_of_panicking()` after the guarded call: it
//! trips a non-panic check class (CBMC's NaN check), which `should_panic` rejects.  Such a harness
//! passes iff the call panics for EVERY input admitted by its assumption.  (Validated: widening
//! the assumption of `c19_header_value_reserved_panics` to 1..=8 makes it FAIL.)
//!
//! Not covered here (other properties; they reach `into_writer`, which CBMC cannot execute):
//! the `create_signature` / `create_tag` / `create_ciphertext` / `add_created_signature` helpers.
//! Not constructible: a builder whose protected header already has `original_data = Some(..)`
//! (builders are tuple structs with a private field), so "discards retained wire bytes" is checked
//! as "after `protected(h)` the built `original_data` is `None`" from the reachable states.
use crate::stubs::*;
use alloc::string::String;
use alloc::vec::Vec;
use coset::cbor::value::Value;
use coset::cwt::{ClaimName, ClaimsSet, ClaimsSetBuilder, Timestamp};
use coset::iana::{self, EnumI64};
use coset::{
    Algorithm, ContentType, CoseEncrypt, CoseEncrypt0, CoseEncrypt0Builder, CoseEncryptBuilder,
    CoseKdfContextBuilder, CoseKey, CoseKeyBuilder, CoseMac, CoseMac0, CoseMac0Builder,
    CoseMacBuilder, CoseRecipient, CoseRecipientBuilder, CoseSign, CoseSign1, CoseSign1Builder,
    CoseSignBuilder, CoseSignature, CoseSignatureBuilder, Header, HeaderBuilder, KeyOperation,
    KeyType, Label, Nonce, PartyInfo, PartyInfoBuilder, ProtectedHeader, RegisteredLabel,
    SuppPubInfo, SuppPubInfoBuilder,
};

// ---------------------------------------------------------------------------------------------
// Argument codes
// ---------------------------------------------------------------------------------------------

/// Capacity of the model's append lists and of the call history (>= the longest sequence).
const CAP: usize = 6;

/// Fixed-capacity append list (cheaper for CBMC than a `Vec` in the model).
#[derive(Clone, Copy)]
struct List<T: Copy> {
    n: usize,
    items: [T; CAP],
}

impl<T: Copy> List<T> {
    fn new(fill: T) -> Self {
        List { n: 0, items: [fill; CAP] }
    }
    fn push(&mut self, t: T) {
        self.items[self.n] = t;
        self.n += 1;
    }
}

/// A byte string of length 0..=2.
#[derive(Clone, Copy)]
struct Bytes {
    b: [u8; 2],
    len: usize,
}

impl Bytes {
    const EMPTY: Bytes = Bytes { b: [0; 2], len: 0 };
    fn any() -> Self {
        let b: [u8; 2] = kani::any();
        let len: usize = kani::any();
        kani::assume(len <= 2);
        Bytes { b, len }
    }
    /// One allocation, no branches: a 2-byte `Vec` whose length is then set to `len` (<= 2).
    fn mk(&self) -> Vec<u8> {
        let mut v = alloc::vec![self.b[0], self.b[1]];
        // SAFETY: len <= 2 = capacity, both elements initialised, u8 has no drop.
        unsafe { v.set_len(self.len) };
        v
    }
    fn is(&self, v: &[u8]) -> bool {
        v.len() == self.len && (self.len < 1 || v[0] == self.b[0]) && (self.len < 2 || v[1] == self.b[1])
    }
    fn same(&self, o: &Bytes) -> bool {
        self.len == o.len && (self.len < 1 || self.b[0] == o.b[0]) && (self.len < 2 || self.b[1] == o.b[1])
    }
    fn opt_is(m: &Option<Bytes>, v: &Option<Vec<u8>>) -> bool {
        match (m, v) {
            (None, None) => true,
            (Some(m), Some(v)) => m.is(v),
            _ => false,
        }
    }
}

/// An ASCII text of length 0..=2.
#[derive(Clone, Copy)]
struct Txt {
    b: [u8; 2],
    len: usize,
}

impl Txt {
    const EMPTY: Txt = Txt { b: [0; 2], len: 0 };
    fn any() -> Self {
        let b: [u8; 2] = kani::any();
        kani::assume(b[0] < 0x80 && b[1] < 0x80);
        let len: usize = kani::any();
        kani::assume(len <= 2);
        Txt { b, len }
    }
    fn mk(&self) -> String {
        let mut v = alloc::vec![self.b[0], self.b[1]];
        // SAFETY: len <= 2 = capacity, both elements initialised; the bytes are ASCII.
        unsafe {
            v.set_len(self.len);
            String::from_utf8_unchecked(v)
        }
    }
    fn is(&self, s: &str) -> bool {
        let v = s.as_bytes();
        v.len() == self.len && (self.len < 1 || v[0] == self.b[0]) && (self.len < 2 || v[1] == self.b[1])
    }
    fn opt_is(m: &Option<Txt>, v: &Option<String>) -> bool {
        match (m, v) {
            (None, None) => true,
            (Some(m), Some(v)) => m.is(v),
            _ => false,
        }
    }
}

/// A leaf `Value` (only identity matters to a builder).
#[derive(Clone, Copy)]
enum Val {
    Null,
    Bool(bool),
    Int(i64),
    Bytes(Bytes),
}

impl Val {
    /// Null / Bool / Integer palette for caller-supplied values.
    fn any() -> Self {
        let k: u8 = kani::any();
        if k == 0 {
            Val::Null
        } else if k == 1 {
            Val::Bool(kani::any())
        } else {
            Val::Int(kani::any())
        }
    }
    fn mk(&self) -> Value {
        match self {
            Val::Null => Value::Null,
            Val::Bool(b) => Value::Bool(*b),
            Val::Int(i) => Value::Integer((*i).into()),
            Val::Bytes(b) => Value::Bytes(b.mk()),
        }
    }
    fn is(&self, v: &Value) -> bool {
        match (self, v) {
            (Val::Null, Value::Null) => true,
            (Val::Bool(a), Value::Bool(b)) => a == b,
            (Val::Int(a), Value::Integer(b)) => i128::from(*b) == *a as i128,
            (Val::Bytes(a), Value::Bytes(b)) => a.is(b),
            _ => false,
        }
    }
}

/// Every value of an IANA registry enum (through its `from_i64`, over all of `i64`).
fn any_enum<T: EnumI64>() -> T {
    let i: i64 = kani::any();
    let e = T::from_i64(i);
    kani::assume(e.is_some());
    e.unwrap()
}

/// One of three values (for the order-exploring harnesses, where only identity matters).
fn pick3<T>(a: T, b: T, c: T) -> T {
    let k: u8 = kani::any();
    if k == 0 {
        a
    } else if k == 1 {
        b
    } else {
        c
    }
}

/// Algorithm argument: every registry value if `FULL`, else a palette of three.
fn arg_alg<const FULL: bool>() -> iana::Algorithm {
    if FULL {
        any_enum()
    } else {
        pick3(iana::Algorithm::ES256, iana::Algorithm::A128GCM, iana::Algorithm::Reserved)
    }
}

fn alg_is(m: &Option<iana::Algorithm>, v: &Option<Algorithm>) -> bool {
    match (m, v) {
        (None, None) => true,
        (Some(a), Some(Algorithm::Assigned(b))) => a == b,
        _ => false,
    }
}

/// A `Header` argument: key id, IV and optional algorithm set, everything else empty.
#[derive(Clone, Copy)]
struct Hdr {
    kid: Bytes,
    iv: Bytes,
    alg: Option<iana::Algorithm>,
}

impl Hdr {
    const EMPTY: Hdr = Hdr { kid: Bytes::EMPTY, iv: Bytes::EMPTY, alg: None };
    fn any() -> Self {
        let alg = if kani::any() {
            Some(if kani::any() { iana::Algorithm::ES256 } else { iana::Algorithm::A128GCM })
        } else {
            None
        };
        Hdr { kid: Bytes::any(), iv: Bytes::any(), alg }
    }
    fn mk(&self) -> Header {
        Header {
            alg: self.alg.map(Algorithm::Assigned),
            key_id: self.kid.mk(),
            iv: self.iv.mk(),
            ..Default::default()
        }
    }
    fn is(&self, h: &Header) -> bool {
        let Header { alg, crit, content_type, key_id, iv, partial_iv, counter_signatures, rest } = h;
        alg_is(&self.alg, alg)
            && crit.is_empty()
            && content_type.is_none()
            && self.kid.is(key_id)
            && self.iv.is(iv)
            && partial_iv.is_empty()
            && counter_signatures.is_empty()
            && rest.is_empty()
    }
    fn differs(&self, o: &Hdr) -> bool {
        !self.kid.same(&o.kid) || !self.iv.same(&o.iv) || self.alg != o.alg
    }
    /// `p` is exactly what `protected(self)` documents: no retained wire bytes, header = self.
    fn is_protected(&self, p: &ProtectedHeader) -> bool {
        let ProtectedHeader { original_data, header } = p;
        original_data.is_none() && self.is(header)
    }
}

/// A `CoseSignature` argument: signature bytes and unprotected key id.
#[derive(Clone, Copy)]
struct Sig {
    sig: Bytes,
    kid: Bytes,
}

impl Sig {
    const EMPTY: Sig = Sig { sig: Bytes::EMPTY, kid: Bytes::EMPTY };
    fn any() -> Self {
        Sig { sig: Bytes::any(), kid: Bytes::any() }
    }
    fn mk(&self) -> CoseSignature {
        CoseSignature {
            unprotected: Header { key_id: self.kid.mk(), ..Default::default() },
            signature: self.sig.mk(),
            ..Default::default()
        }
    }
    fn is(&self, s: &CoseSignature) -> bool {
        let CoseSignature { protected, unprotected, signature } = s;
        Hdr::EMPTY.is_protected(protected)
            && Hdr { kid: self.kid, ..Hdr::EMPTY }.is(unprotected)
            && self.sig.is(signature)
    }
}

/// A `CoseRecipient` argument: optional ciphertext and unprotected key id.
#[derive(Clone, Copy)]
struct Rcp {
    ct: Option<Bytes>,
    kid: Bytes,
}

impl Rcp {
    const EMPTY: Rcp = Rcp { ct: None, kid: Bytes::EMPTY };
    fn any() -> Self {
        Rcp { ct: if kani::any() { Some(Bytes::any()) } else { None }, kid: Bytes::any() }
    }
    fn mk(&self) -> CoseRecipient {
        CoseRecipient {
            unprotected: Header { key_id: self.kid.mk(), ..Default::default() },
            ciphertext: self.ct.map(|c| c.mk()),
            ..Default::default()
        }
    }
    fn is(&self, r: &CoseRecipient) -> bool {
        let CoseRecipient { protected, unprotected, ciphertext, recipients } = r;
        Hdr::EMPTY.is_protected(protected)
            && Hdr { kid: self.kid, ..Hdr::EMPTY }.is(unprotected)
            && Bytes::opt_is(&self.ct, ciphertext)
            && recipients.is_empty()
    }
}

/// History of the calls made so far (for the `cover!` witnesses).
struct Hist {
    n: usize,
    op: [u8; CAP],
    /// per call: the argument was non-empty / differed from the default
    ne: [bool; CAP],
}

impl Hist {
    fn new() -> Self {
        Hist { n: 0, op: [0xff; CAP], ne: [false; CAP] }
    }
    fn push(&mut self, op: u8, ne: bool) {
        self.op[self.n] = op;
        self.ne[self.n] = ne;
        self.n += 1;
    }
}

/// Reached only when a call that is documented to panic returned instead.  Under Kani the
/// multiplication `x * 0` (x = inf) fails CBMC's NaN check, which is not a panic, so a
/// `#[kani::should_panic]` harness that can reach this line FAILS ("failures other than panics");
/// natively (concrete playback, where `should_panic` is inert and a NaN is harmless) the `panic!`
/// makes the replayed test fail.
#[inline(never)]
fn returned_instead_of_panicking() {
    let x: f64 = kani::any();
    let nan = x * 0.0; // NaN for x = +-inf
    core::hint::black_box(nan);
    panic!("C19: the call returned although its documented panic was required");
}

// ---------------------------------------------------------------------------------------------
// HeaderBuilder
// ---------------------------------------------------------------------------------------------

#[derive(Clone, Copy)]
enum Crit {
    Assigned(iana::HeaderParameter),
    Text(Txt),
}

impl Crit {
    fn is(&self, v: &RegisteredLabel<iana::HeaderParameter>) -> bool {
        match (self, v) {
            (Crit::Assigned(a), RegisteredLabel::Assigned(b)) => a == b,
            (Crit::Text(a), RegisteredLabel::Text(b)) => a.is(b),
            _ => false,
        }
    }
}

#[derive(Clone, Copy)]
enum Ctype {
    None,
    Format(iana::CoapContentFormat),
    Text(Txt),
}

impl Ctype {
    fn is(&self, v: &Option<ContentType>) -> bool {
        match (self, v) {
            (Ctype::None, None) => true,
            (Ctype::Format(a), Some(ContentType::Assigned(b))) => a == b,
            (Ctype::Text(a), Some(ContentType::Text(b))) => a.is(b),
            _ => false,
        }
    }
}

#[derive(Clone, Copy)]
enum Lab {
    Int(i64),
    Text(Txt),
}

impl Lab {
    fn is(&self, v: &Label) -> bool {
        match (self, v) {
            (Lab::Int(a), Label::Int(b)) => a == b,
            (Lab::Text(a), Label::Text(b)) => a.is(b),
            _ => false,
        }
    }
}

/// Shadow model of `Header` as a builder can produce it.
struct MHeader {
    alg: Option<iana::Algorithm>,
    crit: List<Crit>,
    content_type: Ctype,
    key_id: Bytes,
    iv: Bytes,
    partial_iv: Bytes,
    counter_signatures: List<Sig>,
    rest: List<(Lab, Val)>,
}

impl MHeader {
    fn new() -> Self {
        MHeader {
            alg: None,
            crit: List::new(Crit::Text(Txt::EMPTY)),
            content_type: Ctype::None,
            key_id: Bytes::EMPTY,
            iv: Bytes::EMPTY,
            partial_iv: Bytes::EMPTY,
            counter_signatures: List::new(Sig::EMPTY),
            rest: List::new((Lab::Int(0), Val::Null)),
        }
    }
    fn check(&self, h: &Header) {
        let Header { alg, crit, content_type, key_id, iv, partial_iv, counter_signatures, rest } = h;
        assert!(alg_is(&self.alg, alg));
        assert!(self.content_type.is(content_type));
        assert!(self.key_id.is(key_id));
        assert!(self.iv.is(iv));
        assert!(self.partial_iv.is(partial_iv));
        assert!(crit.len() == self.crit.n);
        assert!(counter_signatures.len() == self.counter_signatures.n);
        assert!(rest.len() == self.rest.n);
        let mut k = 0;
        while k < CAP {
            if k < self.crit.n {
                assert!(self.crit.items[k].is(&crit[k]));
            }
            if k < self.counter_signatures.n {
                assert!(self.counter_signatures.items[k].is(&counter_signatures[k]));
            }
            if k < self.rest.n {
                assert!(self.rest.items[k].0.is(&rest[k].0));
                assert!(self.rest.items[k].1.is(&rest[k].1));
            }
            k += 1;
        }
        // the consequence named in the property text
        assert!(iv.is_empty() || partial_iv.is_empty());
    }
}

const H_KEY_ID: u8 = 0;
const H_ALGORITHM: u8 = 1;
const H_CONTENT_FORMAT: u8 = 2;
const H_CONTENT_TYPE: u8 = 3;
const H_IV: u8 = 4;
const H_PARTIAL_IV: u8 = 5;
const H_SETTERS: u8 = 6;

/// The reserved range of `HeaderBuilder::value` per the property text: labels 1-7 (the doc
/// comment's "[1, 6]" predates the typed counter-signature field, label 7).
fn header_label_reserved(l: i64) -> bool {
    1 <= l && l <= 7
}

// One function per public method: the call on coset's builder and its documented effect on the
// model.  The returned flag says whether the argument was non-empty (for witnesses).

fn h_key_id(b: HeaderBuilder, m: &mut MHeader) -> (HeaderBuilder, bool) {
    let v = Bytes::any();
    m.key_id = v;
    (b.key_id(v.mk()), v.len > 0)
}

fn h_algorithm<const FULL: bool>(b: HeaderBuilder, m: &mut MHeader) -> (HeaderBuilder, bool) {
    let a = arg_alg::<FULL>();
    m.alg = Some(a);
    (b.algorithm(a), true)
}

fn h_add_critical(b: HeaderBuilder, m: &mut MHeader) -> (HeaderBuilder, bool) {
    let p: iana::HeaderParameter = any_enum();
    m.crit.push(Crit::Assigned(p));
    (b.add_critical(p), true)
}

fn h_add_critical_label_assigned(b: HeaderBuilder, m: &mut MHeader) -> (HeaderBuilder, bool) {
    let p: iana::HeaderParameter = any_enum();
    m.crit.push(Crit::Assigned(p));
    (b.add_critical_label(RegisteredLabel::Assigned(p)), true)
}

fn h_add_critical_label_text(b: HeaderBuilder, m: &mut MHeader) -> (HeaderBuilder, bool) {
    let t = Txt::any();
    m.crit.push(Crit::Text(t));
    (b.add_critical_label(RegisteredLabel::Text(t.mk())), t.len > 0)
}

fn h_content_format<const FULL: bool>(b: HeaderBuilder, m: &mut MHeader) -> (HeaderBuilder, bool) {
    let f: iana::CoapContentFormat = if FULL {
        any_enum()
    } else {
        pick3(
            iana::CoapContentFormat::TextPlainUtf8,
            iana::CoapContentFormat::Cbor,
            iana::CoapContentFormat::CoseSign1,
        )
    };
    m.content_type = Ctype::Format(f);
    (b.content_format(f), true)
}

fn h_content_type(b: HeaderBuilder, m: &mut MHeader) -> (HeaderBuilder, bool) {
    let t = Txt::any();
    m.content_type = Ctype::Text(t);
    (b.content_type(t.mk()), t.len > 0)
}

fn h_iv(b: HeaderBuilder, m: &mut MHeader) -> (HeaderBuilder, bool) {
    let v = Bytes::any();
    m.iv = v;
    m.partial_iv = Bytes::EMPTY;
    (b.iv(v.mk()), v.len > 0)
}

fn h_partial_iv(b: HeaderBuilder, m: &mut MHeader) -> (HeaderBuilder, bool) {
    let v = Bytes::any();
    m.partial_iv = v;
    m.iv = Bytes::EMPTY;
    (b.partial_iv(v.mk()), v.len > 0)
}

fn h_add_counter_signature(b: HeaderBuilder, m: &mut MHeader) -> (HeaderBuilder, bool) {
    let g = Sig::any();
    m.counter_signatures.push(g);
    (b.add_counter_signature(g.mk()), true)
}

/// `value(l, v)` for every label outside the reserved range: appended at the end of `rest`.
fn h_value(b: HeaderBuilder, m: &mut MHeader) -> (HeaderBuilder, bool) {
    let l: i64 = kani::any();
    kani::assume(!header_label_reserved(l));
    let v = Val::any();
    m.rest.push((Lab::Int(l), v));
    (b.value(l, v.mk()), true)
}

fn h_text_value(b: HeaderBuilder, m: &mut MHeader) -> (HeaderBuilder, bool) {
    let t = Txt::any();
    let v = Val::any();
    m.rest.push((Lab::Text(t), v));
    (b.text_value(t.mk(), v.mk()), t.len > 0)
}

/// `STEPS` symbolic calls, each any of the six field setters.
fn header_setter_steps<const STEPS: usize>(
    mut b: HeaderBuilder,
    m: &mut MHeader,
    hist: &mut Hist,
) -> HeaderBuilder {
    let mut s = 0;
    while s < STEPS {
        let op: u8 = kani::any();
        kani::assume(op < H_SETTERS);
        let (nb, ne) = match op {
            H_KEY_ID => h_key_id(b, m),
            H_ALGORITHM => h_algorithm::<false>(b, m),
            H_CONTENT_FORMAT => h_content_format::<false>(b, m),
            H_CONTENT_TYPE => h_content_type(b, m),
            H_IV => h_iv(b, m),
            _ => h_partial_iv(b, m),
        };
        b = nb;
        hist.push(op, ne);
        s += 1;
    }
    b
}

fn header_setters_seq<const STEPS: usize>() {
    let (mut m, mut hist) = (MHeader::new(), Hist::new());
    let b = header_setter_steps::<STEPS>(HeaderBuilder::new(), &mut m, &mut hist);
    let h = b.build();
    m.check(&h);
    let (op, ne, z) = (&hist.op, &hist.ne, STEPS - 1);
    kani::cover!(op[0] == H_IV && ne[0] && op[1] == H_PARTIAL_IV && ne[1] && h.iv.is_empty());
    kani::cover!(op[0] == H_KEY_ID && ne[0] && op[1] == H_PARTIAL_IV && ne[1] && op[z] == H_IV && !ne[z]
        && h.partial_iv.is_empty());
    core::mem::forget(h);
}

/// All sequences of 3 calls over the six field setters, from a fresh builder.
#[kani::proof]
#[kani::unwind(8)]
#[kani::stub(alloc::fmt::format, format_stub)]
fn c19_header_setters_seq3() {
    header_setters_seq::<3>();
}

#[kani::proof]
#[kani::unwind(8)]
#[kani::stub(alloc::fmt::format, format_stub)]
fn c19x_header_setters_seq4() {
    header_setters_seq::<4>();
}

macro_rules! chain {
    ($b:ident, $m:ident; $($f:expr),+ $(,)?) => {
        $( let ($b, _) = $f($b, &mut $m); )+
    };
}

// Straight-line chains: together they call every method, every adder at least twice, each adder
// both before and after setters and other adders; enum arguments range over the whole registry.
// (Kept short: the cost of a harness is dominated by the trace CBMC builds per `cover!`.)

#[kani::proof]
#[kani::unwind(8)]
#[kani::stub(alloc::fmt::format, format_stub)]
fn c19_header_chain_a() {
    let mut m = MHeader::new();
    let b = HeaderBuilder::new();
    chain!(b, m;
        h_key_id, h_algorithm::<true>, h_add_critical, h_add_critical_label_text,
        h_content_format::<true>, h_content_type, h_add_critical,
    );
    let h = b.build();
    m.check(&h);
    kani::cover!(h.crit.len() == 3 && h.key_id.len() == 2 && matches!(h.crit[1], RegisteredLabel::Text(_)));
    core::mem::forget(h);
}

#[kani::proof]
#[kani::unwind(8)]
#[kani::stub(alloc::fmt::format, format_stub)]
fn c19_header_chain_b() {
    let mut m = MHeader::new();
    let b = HeaderBuilder::new();
    chain!(b, m;
        h_iv, h_value, h_partial_iv, h_text_value, h_add_counter_signature, h_value,
        h_add_counter_signature,
    );
    let h = b.build();
    m.check(&h);
    kani::cover!(h.rest.len() == 3 && matches!(h.rest[0].0, Label::Int(0)) && matches!(h.rest[2].0, Label::Int(8))
        && h.partial_iv.len() == 2);
    core::mem::forget(h);
}

#[kani::proof]
#[kani::unwind(8)]
#[kani::stub(alloc::fmt::format, format_stub)]
fn c19_header_chain_c() {
    let mut m = MHeader::new();
    let b = HeaderBuilder::new();
    chain!(b, m;
        h_text_value, h_add_critical_label_assigned, h_value, h_key_id, h_add_counter_signature,
        h_text_value, h_content_type, h_content_format::<true>, h_partial_iv, h_iv,
    );
    let h = b.build();
    m.check(&h);
    kani::cover!(h.rest.len() == 3 && matches!(h.rest[1].0, Label::Int(i64::MIN)) && h.iv.len() == 1);
    core::mem::forget(h);
}

/// Adders at fixed positions with a symbolic setter call before, between and after them.
#[kani::proof]
#[kani::unwind(8)]
#[kani::stub(alloc::fmt::format, format_stub)]
fn c19_header_adders_amid_setters() {
    let (mut m, mut hist) = (MHeader::new(), Hist::new());
    let b = header_setter_steps::<1>(HeaderBuilder::new(), &mut m, &mut hist);
    chain!(b, m; h_value, h_add_critical);
    let b = header_setter_steps::<1>(b, &mut m, &mut hist);
    chain!(b, m; h_add_counter_signature, h_text_value, h_value);
    let b = header_setter_steps::<1>(b, &mut m, &mut hist);
    let h = b.build();
    m.check(&h);
    let (op, ne) = (&hist.op, &hist.ne);
    kani::cover!(op[0] == H_IV && ne[0] && op[1] == H_KEY_ID && op[2] == H_PARTIAL_IV && ne[2] && h.rest.len() == 3);
    core::mem::forget(h);
}

/// One symbolic call over ALL twelve call shapes of `HeaderBuilder` (setters and adders).
fn header_any_step(b: HeaderBuilder, m: &mut MHeader, hist: &mut Hist) -> HeaderBuilder {
    let op: u8 = kani::any();
    kani::assume(op < 12);
    let (nb, ne) = match op {
        H_KEY_ID => h_key_id(b, m),
        H_ALGORITHM => h_algorithm::<false>(b, m),
        H_CONTENT_FORMAT => h_content_format::<false>(b, m),
        H_CONTENT_TYPE => h_content_type(b, m),
        H_IV => h_iv(b, m),
        H_PARTIAL_IV => h_partial_iv(b, m),
        6 => h_add_critical(b, m),
        7 => h_add_critical_label_assigned(b, m),
        8 => h_add_critical_label_text(b, m),
        9 => h_add_counter_signature(b, m),
        10 => h_value(b, m),
        _ => h_text_value(b, m),
    };
    hist.push(op, ne);
    nb
}

/// Thorough tier: any method (adders included, chosen symbolically) on a fresh builder, followed
/// by any setter.
#[kani::proof]
#[kani::unwind(8)]
#[kani::stub(alloc::fmt::format, format_stub)]
fn c19x_header_any_then_setter() {
    let (mut m, mut hist) = (MHeader::new(), Hist::new());
    let b = header_any_step(HeaderBuilder::new(), &mut m, &mut hist);
    let b = header_setter_steps::<1>(b, &mut m, &mut hist);
    let h = b.build();
    m.check(&h);
    kani::cover!(hist.op[0] == 10 && hist.op[1] == H_IV && hist.ne[1] && h.rest.len() == 1);
    kani::cover!(hist.op[0] == 9 && hist.op[1] == H_KEY_ID && h.counter_signatures.len() == 1);
    core::mem::forget(h);
}

/// Thorough tier: every list already holds one element (fixed prefix, symbolic arguments), then
/// any setter, then any method (adders included, chosen symbolically).
#[kani::proof]
#[kani::unwind(8)]
#[kani::stub(alloc::fmt::format, format_stub)]
fn c19x_header_populated_setter_then_any() {
    let (mut m, mut hist) = (MHeader::new(), Hist::new());
    let b = HeaderBuilder::new();
    chain!(b, m; h_add_critical, h_add_counter_signature, h_text_value);
    let b = header_setter_steps::<1>(b, &mut m, &mut hist);
    let b = header_any_step(b, &mut m, &mut hist);
    let h = b.build();
    m.check(&h);
    kani::cover!(hist.op[0] == H_PARTIAL_IV && hist.ne[0] && hist.op[1] == 10 && h.rest.len() == 2);
    kani::cover!(hist.op[0] == H_IV && hist.ne[0] && hist.op[1] == H_PARTIAL_IV && hist.ne[1] && h.crit.len() == 1);
    core::mem::forget(h);
}

/// `value(l, _)` with a reserved label (1..=7) panics for every such label, whatever was called
/// before.
#[kani::proof]
#[kani::should_panic]
#[kani::unwind(8)]
#[kani::stub(alloc::fmt::format, format_stub)]
fn c19_header_value_reserved_panics() {
    let l: i64 = kani::any();
    kani::assume(header_label_reserved(l));
    let mut b = HeaderBuilder::new();
    if kani::any() {
        b = b.key_id(Bytes::any().mk());
    }
    if kani::any() {
        b = b.value(0, Value::Null);
    }
    let b = b.value(l, Val::any().mk());
    returned_instead_of_panicking();
    core::mem::forget(b);
}

// ---------------------------------------------------------------------------------------------
// Message builders: CoseSignature, CoseSign, CoseSign1, CoseMac, CoseMac0, CoseEncrypt,
// CoseEncrypt0, CoseRecipient
// ---------------------------------------------------------------------------------------------

/// Shadow model shared by the eight message builders (a builder uses the fields it has).
struct MMsg {
    protected: Hdr,
    unprotected: Hdr,
    /// `signature` / `tag`
    bytes: Bytes,
    /// `payload` / `ciphertext`
    opt: Option<Bytes>,
    sigs: List<Sig>,
    rcps: List<Rcp>,
}

impl MMsg {
    fn new() -> Self {
        MMsg {
            protected: Hdr::EMPTY,
            unprotected: Hdr::EMPTY,
            bytes: Bytes::EMPTY,
            opt: None,
            sigs: List::new(Sig::EMPTY),
            rcps: List::new(Rcp::EMPTY),
        }
    }
}

const M_PROTECTED: u8 = 0;
const M_UNPROTECTED: u8 = 1;
const M_BYTES: u8 = 2;
const M_OPT: u8 = 3;

/// Uniform view of a message builder: which public methods it has and how to call them.
trait Msg: Sized {
    type Built;
    const BYTES: bool;
    const OPT: bool;
    /// 0 = no adder, 1 = adds `CoseSignature`s, 2 = adds `CoseRecipient`s
    const ADDS: u8;
    fn new() -> Self;
    fn protected(self, h: Header) -> Self;
    fn unprotected(self, h: Header) -> Self;
    fn bytes(self, v: Vec<u8>) -> Self;
    fn opt(self, v: Vec<u8>) -> Self;
    fn add_sig(self, s: CoseSignature) -> Self;
    fn add_rcp(self, r: CoseRecipient) -> Self;
    fn build(self) -> Self::Built;
    /// Compare every field of the built value with the model.
    fn check(t: &Self::Built, m: &MMsg);
}

macro_rules! opt_call {
    ($self:ident, $arg:ident, ) => {{
        let _ = $arg;
        unreachable!()
    }};
    ($self:ident, $arg:ident, $method:ident) => {
        $self.$method($arg)
    };
}

macro_rules! impl_msg {
    ($B:ident => $T:ident {
        bytes: [$($bf:ident)?], opt: [$($of:ident)?],
        sigs: [$($sf:ident . $sm:ident)?], rcps: [$($rf:ident . $rm:ident)?]
    }) => {
        impl Msg for $B {
            type Built = $T;
            const BYTES: bool = false $(|| stringify!($bf).len() > 0)?;
            const OPT: bool = false $(|| stringify!($of).len() > 0)?;
            const ADDS: u8 = 0 $(+ 1 + 0 * stringify!($sf).len() as u8)? $(+ 2 + 0 * stringify!($rf).len() as u8)?;
            fn new() -> Self {
                $B::new()
            }
            fn protected(self, h: Header) -> Self {
                $B::protected(self, h)
            }
            fn unprotected(self, h: Header) -> Self {
                $B::unprotected(self, h)
            }
            fn bytes(self, v: Vec<u8>) -> Self {
                opt_call!(self, v, $($bf)?)
            }
            fn opt(self, v: Vec<u8>) -> Self {
                opt_call!(self, v, $($of)?)
            }
            fn add_sig(self, s: CoseSignature) -> Self {
                opt_call!(self, s, $($sm)?)
            }
            fn add_rcp(self, r: CoseRecipient) -> Self {
                opt_call!(self, r, $($rm)?)
            }
            fn build(self) -> $T {
                $B::build(self)
            }
            fn check(t: &$T, m: &MMsg) {
                // exhaustive: a field added to the struct makes this fail to compile
                let $T { protected, unprotected, $($bf,)? $($of,)? $($sf,)? $($rf,)? } = t;
                assert!(m.protected.is_protected(protected));
                assert!(m.unprotected.is(unprotected));
                $( assert!(m.bytes.is($bf)); )?
                $( assert!(Bytes::opt_is(&m.opt, $of)); )?
                $(
                    assert!($sf.len() == m.sigs.n);
                    let mut k = 0;
                    while k < CAP {
                        if k < m.sigs.n {
                            assert!(m.sigs.items[k].is(&$sf[k]));
                        }
                        k += 1;
                    }
                )?
                $(
                    assert!($rf.len() == m.rcps.n);
                    let mut k = 0;
                    while k < CAP {
                        if k < m.rcps.n {
                            assert!(m.rcps.items[k].is(&$rf[k]));
                        }
                        k += 1;
                    }
                )?
            }
        }
    };
}

impl_msg!(CoseSignatureBuilder => CoseSignature { bytes: [signature], opt: [], sigs: [], rcps: [] });
impl_msg!(CoseSignBuilder => CoseSign { bytes: [], opt: [payload], sigs: [signatures.add_signature], rcps: [] });
impl_msg!(CoseSign1Builder => CoseSign1 { bytes: [signature], opt: [payload], sigs: [], rcps: [] });
impl_msg!(CoseMacBuilder => CoseMac { bytes: [tag], opt: [payload], sigs: [], rcps: [recipients.add_recipient] });
impl_msg!(CoseMac0Builder => CoseMac0 { bytes: [tag], opt: [payload], sigs: [], rcps: [] });
impl_msg!(CoseEncryptBuilder => CoseEncrypt { bytes: [], opt: [ciphertext], sigs: [], rcps: [recipients.add_recipient] });
impl_msg!(CoseEncrypt0Builder => CoseEncrypt0 { bytes: [], opt: [ciphertext], sigs: [], rcps: [] });
impl_msg!(CoseRecipientBuilder => CoseRecipient { bytes: [], opt: [ciphertext], sigs: [], rcps: [recipients.add_recipient] });

/// `STEPS` symbolic calls, each any of the builder's field setters.
fn msg_setter_steps<M: Msg, const STEPS: usize>(mut b: M, m: &mut MMsg, hist: &mut Hist) -> M {
    let mut s = 0;
    while s < STEPS {
        let op: u8 = kani::any();
        kani::assume(op <= M_UNPROTECTED || (op == M_BYTES && M::BYTES) || (op == M_OPT && M::OPT));
        match op {
            M_PROTECTED => {
                let h = Hdr::any();
                hist.push(op, h.differs(&m.protected));
                m.protected = h;
                b = b.protected(h.mk());
            }
            M_UNPROTECTED => {
                let h = Hdr::any();
                hist.push(op, h.differs(&m.unprotected));
                m.unprotected = h;
                b = b.unprotected(h.mk());
            }
            M_BYTES if M::BYTES => {
                let v = Bytes::any();
                hist.push(op, !v.same(&m.bytes));
                m.bytes = v;
                b = b.bytes(v.mk());
            }
            M_OPT if M::OPT => {
                let v = Bytes::any();
                hist.push(op, v.len > 0);
                m.opt = Some(v);
                b = b.opt(v.mk());
            }
            _ => {}
        }
        s += 1;
    }
    b
}

/// All sequences of `STEPS` setter calls from a fresh builder.
fn msg_setters_seq<M: Msg, const STEPS: usize>() {
    let (mut m, mut hist) = (MMsg::new(), Hist::new());
    let b = msg_setter_steps::<M, STEPS>(M::new(), &mut m, &mut hist);
    let t = b.build();
    M::check(&t, &m);
    let (op, ne, z) = (&hist.op, &hist.ne, STEPS - 1);
    // a later protected() overrides an earlier, different one, with an unrelated call in between
    kani::cover!(op[0] == M_PROTECTED && ne[0] && op[1] >= M_BYTES && op[z] == M_PROTECTED && ne[z]);
    // the same non-header field set twice
    kani::cover!(op[0] >= M_BYTES && op[1] == M_UNPROTECTED && ne[1] && op[z] == op[0] && ne[z]);
    core::mem::forget(t);
}

/// setter, add(x), setter, add(y) -- adders at fixed positions, symbolic setters before/between.
fn msg_adder_chain<M: Msg>() {
    let (mut m, mut hist) = (MMsg::new(), Hist::new());
    let mut b = M::new();
    let mut round = 0;
    while round < 2 {
        b = msg_setter_steps::<M, 1>(b, &mut m, &mut hist);
        if M::ADDS == 1 {
            let g = Sig::any();
            m.sigs.push(g);
            b = b.add_sig(g.mk());
        } else {
            let r = Rcp::any();
            m.rcps.push(r);
            b = b.add_rcp(r.mk());
        }
        round += 1;
    }
    let t = b.build();
    M::check(&t, &m);
    let (op, ne) = (&hist.op, &hist.ne);
    kani::cover!(op[0] == M_PROTECTED && ne[0] && op[1] == M_PROTECTED && ne[1] && m.sigs.n + m.rcps.n == 2);
    core::mem::forget(t);
}

macro_rules! msg_harnesses {
    ($B:ident: $seq3:ident, $seq4:ident $(, $chain:ident)?) => {
        #[kani::proof]
        #[kani::unwind(8)]
        #[kani::stub(alloc::fmt::format, format_stub)]
        fn $seq3() {
            msg_setters_seq::<$B, 3>();
        }
        #[kani::proof]
        #[kani::unwind(8)]
        #[kani::stub(alloc::fmt::format, format_stub)]
        fn $seq4() {
            msg_setters_seq::<$B, 4>();
        }
        $(
            #[kani::proof]
            #[kani::unwind(8)]
            #[kani::stub(alloc::fmt::format, format_stub)]
            fn $chain() {
                msg_adder_chain::<$B>();
            }
        )?
    };
}

msg_harnesses!(CoseSignatureBuilder: c19_signature_setters_seq3, c19x_signature_setters_seq4);
msg_harnesses!(CoseSignBuilder: c19_sign_setters_seq3, c19x_sign_setters_seq4, c19_sign_adder_chain);
msg_harnesses!(CoseSign1Builder: c19_sign1_setters_seq3, c19x_sign1_setters_seq4);
msg_harnesses!(CoseMacBuilder: c19_mac_setters_seq3, c19x_mac_setters_seq4, c19_mac_adder_chain);
msg_harnesses!(CoseMac0Builder: c19_mac0_setters_seq3, c19x_mac0_setters_seq4);
msg_harnesses!(CoseEncryptBuilder: c19_encrypt_setters_seq3, c19x_encrypt_setters_seq4, c19_encrypt_adder_chain);
msg_harnesses!(CoseEncrypt0Builder: c19_encrypt0_setters_seq3, c19x_encrypt0_setters_seq4);
msg_harnesses!(CoseRecipientBuilder: c19_recipient_setters_seq3, c19x_recipient_setters_seq4, c19_recipient_adder_chain);

// ---------------------------------------------------------------------------------------------
// CoseKeyBuilder
// ---------------------------------------------------------------------------------------------

#[derive(Clone, Copy)]
enum Kty {
    Assigned(iana::KeyType),
    Text(Txt),
}

impl Kty {
    fn is(&self, v: &KeyType) -> bool {
        match (self, v) {
            (Kty::Assigned(a), KeyType::Assigned(b)) => a == b,
            (Kty::Text(a), KeyType::Text(b)) => a.is(b),
            _ => false,
        }
    }
}

/// Shadow model of `CoseKey` as a builder can produce it.
struct MKey {
    kty: Kty,
    key_id: Bytes,
    alg: Option<iana::Algorithm>,
    /// key operation `i` (1..=10) is in the set
    key_ops: [bool; 11],
    base_iv: Bytes,
    params: List<(i64, Val)>,
}

impl MKey {
    /// The documented state of `CoseKeyBuilder::new()`: `CoseKey::default()`, whose key type is
    /// the registry's `Reserved` value.
    fn new() -> Self {
        MKey {
            kty: Kty::Assigned(iana::KeyType::Reserved),
            key_id: Bytes::EMPTY,
            alg: None,
            key_ops: [false; 11],
            base_iv: Bytes::EMPTY,
            params: List::new((0, Val::Null)),
        }
    }
    fn with(kty: iana::KeyType) -> Self {
        let mut m = MKey::new();
        m.kty = Kty::Assigned(kty);
        m
    }
    fn check(&self, key: &CoseKey) {
        let CoseKey { kty, key_id, alg, key_ops, base_iv, params } = key;
        assert!(self.kty.is(kty));
        assert!(self.key_id.is(key_id));
        assert!(alg_is(&self.alg, alg));
        assert!(self.base_iv.is(base_iv));
        assert!(params.len() == self.params.n);
        let mut k = 0;
        while k < CAP {
            if k < self.params.n {
                assert!(matches!(&params[k].0, Label::Int(l) if *l == self.params.items[k].0));
                assert!(self.params.items[k].1.is(&params[k].1));
            }
            k += 1;
        }
        let mut want = 0;
        let mut op = 1;
        while op <= 10 {
            if self.key_ops[op] {
                want += 1;
            }
            op += 1;
        }
        assert!(key_ops.len() == want);
    }
}

/// The reserved labels of `CoseKeyBuilder::param`: "a parameter label from the
/// `iana::KeyParameter` range", i.e. the IANA "COSE Key Common Parameters" registry:
/// Reserved 0, kty 1, kid 2, alg 3, key_ops 4, Base IV 5.
fn key_label_reserved(l: i64) -> bool {
    0 <= l && l <= 5
}

const K_KTY: u8 = 0;
const K_KEY_ID: u8 = 1;
const K_BASE_IV: u8 = 2;
const K_KEY_TYPE: u8 = 3;
const K_ALGORITHM: u8 = 4;
const K_SETTERS: u8 = 5;

fn k_kty_assigned(b: CoseKeyBuilder, m: &mut MKey) -> (CoseKeyBuilder, bool) {
    let t: iana::KeyType = any_enum();
    m.kty = Kty::Assigned(t);
    (b.kty(KeyType::Assigned(t)), true)
}

fn k_kty_text(b: CoseKeyBuilder, m: &mut MKey) -> (CoseKeyBuilder, bool) {
    let t = Txt::any();
    m.kty = Kty::Text(t);
    (b.kty(KeyType::Text(t.mk())), t.len > 0)
}

fn k_key_id(b: CoseKeyBuilder, m: &mut MKey) -> (CoseKeyBuilder, bool) {
    let v = Bytes::any();
    m.key_id = v;
    (b.key_id(v.mk()), v.len > 0)
}

fn k_base_iv(b: CoseKeyBuilder, m: &mut MKey) -> (CoseKeyBuilder, bool) {
    let v = Bytes::any();
    m.base_iv = v;
    (b.base_iv(v.mk()), v.len > 0)
}

fn k_key_type(b: CoseKeyBuilder, m: &mut MKey) -> (CoseKeyBuilder, bool) {
    let t: iana::KeyType = any_enum();
    m.kty = Kty::Assigned(t);
    (b.key_type(t), true)
}

fn k_algorithm<const FULL: bool>(b: CoseKeyBuilder, m: &mut MKey) -> (CoseKeyBuilder, bool) {
    let a = arg_alg::<FULL>();
    m.alg = Some(a);
    (b.algorithm(a), true)
}

fn k_add_key_op(b: CoseKeyBuilder, m: &mut MKey) -> (CoseKeyBuilder, bool) {
    let o: iana::KeyOperation = any_enum();
    m.key_ops[o.to_i64() as usize] = true;
    (b.add_key_op(o), true)
}

/// `param(l, v)` for every label outside the reserved set: appended at the end of `params`.
fn k_param(b: CoseKeyBuilder, m: &mut MKey) -> (CoseKeyBuilder, bool) {
    let l: i64 = kani::any();
    kani::assume(!key_label_reserved(l));
    let v = Val::any();
    m.params.push((l, v));
    (b.param(l, v.mk()), true)
}

/// `STEPS` symbolic calls, each any of the five field setters.
fn key_setter_steps<const STEPS: usize>(mut b: CoseKeyBuilder, m: &mut MKey, hist: &mut Hist) -> CoseKeyBuilder {
    let mut s = 0;
    while s < STEPS {
        let op: u8 = kani::any();
        kani::assume(op < K_SETTERS);
        let (nb, ne) = match op {
            K_KTY => {
                if kani::any() {
                    k_kty_assigned(b, m)
                } else {
                    k_kty_text(b, m)
                }
            }
            K_KEY_ID => k_key_id(b, m),
            K_BASE_IV => k_base_iv(b, m),
            K_KEY_TYPE => k_key_type(b, m),
            _ => k_algorithm::<false>(b, m),
        };
        b = nb;
        hist.push(op, ne);
        s += 1;
    }
    b
}

// The constructors.  The documented content of each: the key type it names and exactly the
// parameters it names, in the IANA key-type-parameter labels (EC2: crv -1, x -2, y -3, d -4;
// symmetric: k -1), everything else as in a fresh key.

fn key_new() -> (CoseKeyBuilder, MKey) {
    (CoseKeyBuilder::new(), MKey::new())
}

fn key_ec2_pub() -> (CoseKeyBuilder, MKey) {
    let curve: iana::EllipticCurve = any_enum();
    let (x, y) = (Bytes::any(), Bytes::any());
    let mut m = MKey::with(iana::KeyType::EC2);
    m.params.push((-1, Val::Int(curve.to_i64())));
    m.params.push((-2, Val::Bytes(x)));
    m.params.push((-3, Val::Bytes(y)));
    (CoseKeyBuilder::new_ec2_pub_key(curve, x.mk(), y.mk()), m)
}

fn key_ec2_pub_y_sign() -> (CoseKeyBuilder, MKey) {
    let curve: iana::EllipticCurve = any_enum();
    let x = Bytes::any();
    let y_sign: bool = kani::any();
    let mut m = MKey::with(iana::KeyType::EC2);
    m.params.push((-1, Val::Int(curve.to_i64())));
    m.params.push((-2, Val::Bytes(x)));
    m.params.push((-3, Val::Bool(y_sign)));
    (CoseKeyBuilder::new_ec2_pub_key_y_sign(curve, x.mk(), y_sign), m)
}

fn key_ec2_priv() -> (CoseKeyBuilder, MKey) {
    let curve: iana::EllipticCurve = any_enum();
    let (x, y, d) = (Bytes::any(), Bytes::any(), Bytes::any());
    let mut m = MKey::with(iana::KeyType::EC2);
    m.params.push((-1, Val::Int(curve.to_i64())));
    m.params.push((-2, Val::Bytes(x)));
    m.params.push((-3, Val::Bytes(y)));
    m.params.push((-4, Val::Bytes(d)));
    (CoseKeyBuilder::new_ec2_priv_key(curve, x.mk(), y.mk(), d.mk()), m)
}

fn key_symmetric() -> (CoseKeyBuilder, MKey) {
    let k = Bytes::any();
    let mut m = MKey::with(iana::KeyType::Symmetric);
    m.params.push((-1, Val::Bytes(k)));
    (CoseKeyBuilder::new_symmetric_key(k.mk()), m)
}

fn key_okp() -> (CoseKeyBuilder, MKey) {
    (CoseKeyBuilder::new_okp_key(), MKey::with(iana::KeyType::OKP))
}

/// constructor, setter, param(l, v), setter: the constructor's exact content, then the frame of
/// setters and of `param` on top of it.
fn key_from(start: (CoseKeyBuilder, MKey)) {
    let (b, mut m) = start;
    let mut hist = Hist::new();
    let b = key_setter_steps::<1>(b, &mut m, &mut hist);
    let (b, _) = k_param(b, &mut m);
    let b = key_setter_steps::<1>(b, &mut m, &mut hist);
    let key = b.build();
    m.check(&key);
    let (op, ne, n) = (&hist.op, &hist.ne, key.params.len());
    kani::cover!(op[0] == K_KEY_TYPE && op[1] == K_KTY && !ne[1] && matches!(key.params[n - 1].0, Label::Int(6)));
    core::mem::forget(key);
}

macro_rules! key_ctor_harness {
    ($name:ident, $ctor:ident) => {
        #[kani::proof]
        #[kani::unwind(12)]
        #[kani::stub(alloc::fmt::format, format_stub)]
        fn $name() {
            key_from($ctor());
        }
    };
}
key_ctor_harness!(c19_key_new, key_new);
key_ctor_harness!(c19_key_new_ec2_pub_key, key_ec2_pub);
key_ctor_harness!(c19_key_new_ec2_pub_key_y_sign, key_ec2_pub_y_sign);
key_ctor_harness!(c19_key_new_ec2_priv_key, key_ec2_priv);
key_ctor_harness!(c19_key_new_symmetric_key, key_symmetric);
key_ctor_harness!(c19_key_new_okp_key, key_okp);

fn key_setters_seq<const STEPS: usize>() {
    let (mut m, mut hist) = (MKey::new(), Hist::new());
    let b = key_setter_steps::<STEPS>(CoseKeyBuilder::new(), &mut m, &mut hist);
    let key = b.build();
    m.check(&key);
    let (op, ne, z) = (&hist.op, &hist.ne, STEPS - 1);
    kani::cover!(op[0] == K_KTY && ne[0] && op[1] == K_BASE_IV && ne[1] && op[z] == K_KEY_TYPE);
    kani::cover!(op[0] == K_KEY_ID && ne[0] && op[1] == K_ALGORITHM && op[z] == K_KEY_ID && !ne[z]);
    core::mem::forget(key);
}

/// All sequences of 3 calls over the five field setters, from `new()`.
#[kani::proof]
#[kani::unwind(12)]
#[kani::stub(alloc::fmt::format, format_stub)]
fn c19_key_setters_seq3() {
    key_setters_seq::<3>();
}

#[kani::proof]
#[kani::unwind(12)]
#[kani::stub(alloc::fmt::format, format_stub)]
fn c19x_key_setters_seq4() {
    key_setters_seq::<4>();
}

/// `param` appends in call order, for every unreserved label, amid setters.
#[kani::proof]
#[kani::unwind(12)]
#[kani::stub(alloc::fmt::format, format_stub)]
fn c19_key_params_chain() {
    let mut m = MKey::new();
    let b = CoseKeyBuilder::new();
    chain!(b, m; k_param, k_key_id, k_param, k_algorithm::<true>, k_kty_text, k_param, k_base_iv);
    let key = b.build();
    m.check(&key);
    kani::cover!(matches!(key.params[0].0, Label::Int(-1)) && matches!(key.params[1].0, Label::Int(6))
        && matches!(key.params[2].0, Label::Int(i64::MAX)) && key.base_iv.len() == 2);
    core::mem::forget(key);
}

/// `add_key_op(o)`, for every registered operation, between two symbolic setter calls: the set
/// then holds exactly `o`, nothing else changes.
///
/// Only ONE insertion per sequence: a second `BTreeSet::insert` (into a non-empty set) does not
/// finish in CBMC within 10 minutes even with concrete operations, so "inserting into a non-empty
/// operation set" (no duplicates, earlier members kept) is outside what these harnesses decide.
#[kani::proof]
#[kani::unwind(12)]
#[kani::stub(alloc::fmt::format, format_stub)]
fn c19_key_add_key_op() {
    let (mut m, mut hist) = (MKey::new(), Hist::new());
    let b = key_setter_steps::<1>(CoseKeyBuilder::new(), &mut m, &mut hist);
    let (b, _) = k_add_key_op(b, &mut m);
    let b = key_setter_steps::<1>(b, &mut m, &mut hist);
    let key = b.build();
    m.check(&key);
    let other: iana::KeyOperation = any_enum();
    assert!(key.key_ops.contains(&KeyOperation::Assigned(other)) == m.key_ops[other.to_i64() as usize]);
    kani::cover!(hist.op[0] == K_KEY_ID && hist.ne[0] && hist.op[1] == K_BASE_IV && hist.ne[1]
        && key.key_ops.contains(&KeyOperation::Assigned(iana::KeyOperation::MacVerify)));
    core::mem::forget(key);
}

/// `param(l, _)` with a label of the common-key-parameter registry (0..=5) panics for every such
/// label, whatever the builder state.
#[kani::proof]
#[kani::should_panic]
#[kani::unwind(12)]
#[kani::stub(alloc::fmt::format, format_stub)]
fn c19_key_param_reserved_panics() {
    let l: i64 = kani::any();
    kani::assume(key_label_reserved(l));
    let mut b = if kani::any() { CoseKeyBuilder::new() } else { CoseKeyBuilder::new_okp_key() };
    if kani::any() {
        b = b.param(-1, Value::Null);
    }
    let b = b.param(l, Val::any().mk());
    returned_instead_of_panicking();
    core::mem::forget(b);
}

// ---------------------------------------------------------------------------------------------
// cwt::ClaimsSetBuilder
// ---------------------------------------------------------------------------------------------

#[derive(Clone, Copy)]
enum Ts {
    Whole(i64),
    /// bit pattern of the `f64` (so that NaNs compare by identity)
    Frac(u64),
}

impl Ts {
    fn any() -> Self {
        if kani::any() {
            Ts::Whole(kani::any())
        } else {
            Ts::Frac(kani::any())
        }
    }
    fn mk(&self) -> Timestamp {
        match self {
            Ts::Whole(i) => Timestamp::WholeSeconds(*i),
            Ts::Frac(bits) => Timestamp::FractionalSeconds(f64::from_bits(*bits)),
        }
    }
    fn opt_is(m: &Option<Ts>, v: &Option<Timestamp>) -> bool {
        match (m, v) {
            (None, None) => true,
            (Some(Ts::Whole(a)), Some(Timestamp::WholeSeconds(b))) => a == b,
            (Some(Ts::Frac(a)), Some(Timestamp::FractionalSeconds(b))) => *a == b.to_bits(),
            _ => false,
        }
    }
}

#[derive(Clone, Copy)]
enum Name {
    Assigned(iana::CwtClaimName),
    Text(Txt),
    Private(i64),
}

impl Name {
    fn is(&self, v: &ClaimName) -> bool {
        match (self, v) {
            (Name::Assigned(a), ClaimName::Assigned(b)) => a == b,
            (Name::Text(a), ClaimName::Text(b)) => a.is(b),
            (Name::Private(a), ClaimName::PrivateUse(b)) => a == b,
            _ => false,
        }
    }
}

struct MClaims {
    issuer: Option<Txt>,
    subject: Option<Txt>,
    audience: Option<Txt>,
    expiration_time: Option<Ts>,
    not_before: Option<Ts>,
    issued_at: Option<Ts>,
    cwt_id: Option<Bytes>,
    rest: List<(Name, Val)>,
}

impl MClaims {
    fn new() -> Self {
        MClaims {
            issuer: None,
            subject: None,
            audience: None,
            expiration_time: None,
            not_before: None,
            issued_at: None,
            cwt_id: None,
            rest: List::new((Name::Private(0), Val::Null)),
        }
    }
    fn check(&self, c: &ClaimsSet) {
        let ClaimsSet { issuer, subject, audience, expiration_time, not_before, issued_at, cwt_id, rest } = c;
        assert!(Txt::opt_is(&self.issuer, issuer));
        assert!(Txt::opt_is(&self.subject, subject));
        assert!(Txt::opt_is(&self.audience, audience));
        assert!(Ts::opt_is(&self.expiration_time, expiration_time));
        assert!(Ts::opt_is(&self.not_before, not_before));
        assert!(Ts::opt_is(&self.issued_at, issued_at));
        assert!(Bytes::opt_is(&self.cwt_id, cwt_id));
        assert!(rest.len() == self.rest.n);
        let mut k = 0;
        while k < CAP {
            if k < self.rest.n {
                assert!(self.rest.items[k].0.is(&rest[k].0));
                assert!(self.rest.items[k].1.is(&rest[k].1));
            }
            k += 1;
        }
    }
}

/// `claim()`: "a claim with name from the range [1, 7]" is refused.
fn claim_name_reserved(n: i64) -> bool {
    1 <= n && n <= 7
}

/// `private_claim()`: a key "outside of the private use range" is refused; the private-use range
/// of the CWT claims registry is "less than -65536".
fn claim_id_private(id: i64) -> bool {
    id < -65536
}

const C_ISSUER: u8 = 0;
const C_SUBJECT: u8 = 1;
const C_AUDIENCE: u8 = 2;
const C_EXPIRATION_TIME: u8 = 3;
const C_NOT_BEFORE: u8 = 4;
const C_ISSUED_AT: u8 = 5;
const C_CWT_ID: u8 = 6;
const C_SETTERS: u8 = 7;

fn c_issuer(b: ClaimsSetBuilder, m: &mut MClaims) -> (ClaimsSetBuilder, bool) {
    let t = Txt::any();
    m.issuer = Some(t);
    (b.issuer(t.mk()), t.len > 0)
}
fn c_subject(b: ClaimsSetBuilder, m: &mut MClaims) -> (ClaimsSetBuilder, bool) {
    let t = Txt::any();
    m.subject = Some(t);
    (b.subject(t.mk()), t.len > 0)
}
fn c_audience(b: ClaimsSetBuilder, m: &mut MClaims) -> (ClaimsSetBuilder, bool) {
    let t = Txt::any();
    m.audience = Some(t);
    (b.audience(t.mk()), t.len > 0)
}
fn c_expiration_time(b: ClaimsSetBuilder, m: &mut MClaims) -> (ClaimsSetBuilder, bool) {
    let t = Ts::any();
    m.expiration_time = Some(t);
    (b.expiration_time(t.mk()), matches!(t, Ts::Frac(_)))
}
fn c_not_before(b: ClaimsSetBuilder, m: &mut MClaims) -> (ClaimsSetBuilder, bool) {
    let t = Ts::any();
    m.not_before = Some(t);
    (b.not_before(t.mk()), matches!(t, Ts::Frac(_)))
}
fn c_issued_at(b: ClaimsSetBuilder, m: &mut MClaims) -> (ClaimsSetBuilder, bool) {
    let t = Ts::any();
    m.issued_at = Some(t);
    (b.issued_at(t.mk()), matches!(t, Ts::Frac(_)))
}
fn c_cwt_id(b: ClaimsSetBuilder, m: &mut MClaims) -> (ClaimsSetBuilder, bool) {
    let v = Bytes::any();
    m.cwt_id = Some(v);
    (b.cwt_id(v.mk()), v.len > 0)
}
/// `claim(name, v)` for every registered name outside 1..=7: appended.
fn c_claim(b: ClaimsSetBuilder, m: &mut MClaims) -> (ClaimsSetBuilder, bool) {
    let n: iana::CwtClaimName = any_enum();
    kani::assume(!claim_name_reserved(n.to_i64()));
    let v = Val::any();
    m.rest.push((Name::Assigned(n), v));
    (b.claim(n, v.mk()), true)
}
fn c_text_claim(b: ClaimsSetBuilder, m: &mut MClaims) -> (ClaimsSetBuilder, bool) {
    let t = Txt::any();
    let v = Val::any();
    m.rest.push((Name::Text(t), v));
    (b.text_claim(t.mk(), v.mk()), t.len > 0)
}
/// `private_claim(id, v)` for every id of the private-use range: appended.
fn c_private_claim(b: ClaimsSetBuilder, m: &mut MClaims) -> (ClaimsSetBuilder, bool) {
    let id: i64 = kani::any();
    kani::assume(claim_id_private(id));
    let v = Val::any();
    m.rest.push((Name::Private(id), v));
    (b.private_claim(id, v.mk()), true)
}

fn claims_setter_steps<const STEPS: usize>(
    mut b: ClaimsSetBuilder,
    m: &mut MClaims,
    hist: &mut Hist,
) -> ClaimsSetBuilder {
    let mut s = 0;
    while s < STEPS {
        let op: u8 = kani::any();
        kani::assume(op < C_SETTERS);
        let (nb, ne) = match op {
            C_ISSUER => c_issuer(b, m),
            C_SUBJECT => c_subject(b, m),
            C_AUDIENCE => c_audience(b, m),
            C_EXPIRATION_TIME => c_expiration_time(b, m),
            C_NOT_BEFORE => c_not_before(b, m),
            C_ISSUED_AT => c_issued_at(b, m),
            _ => c_cwt_id(b, m),
        };
        b = nb;
        hist.push(op, ne);
        s += 1;
    }
    b
}

fn claims_setters_seq<const STEPS: usize>() {
    let (mut m, mut hist) = (MClaims::new(), Hist::new());
    let b = claims_setter_steps::<STEPS>(ClaimsSetBuilder::new(), &mut m, &mut hist);
    let c = b.build();
    m.check(&c);
    let (op, ne, z) = (&hist.op, &hist.ne, STEPS - 1);
    kani::cover!(op[0] == C_ISSUER && ne[0] && op[1] == C_SUBJECT && op[z] == C_ISSUER && !ne[z]);
    kani::cover!(op[0] == C_NOT_BEFORE && ne[0] && op[1] == C_EXPIRATION_TIME && op[z] == C_NOT_BEFORE && !ne[z]);
    core::mem::forget(c);
}

/// All sequences of 3 calls over the seven typed-claim setters.
#[kani::proof]
#[kani::unwind(8)]
#[kani::stub(alloc::fmt::format, format_stub)]
fn c19_claims_setters_seq3() {
    claims_setters_seq::<3>();
}

#[kani::proof]
#[kani::unwind(8)]
#[kani::stub(alloc::fmt::format, format_stub)]
fn c19x_claims_setters_seq4() {
    claims_setters_seq::<4>();
}

/// The three extra-claim calls interleaved with each other and with setters (symbolic setter
/// before and between): every non-refused name is appended in call order.
#[kani::proof]
#[kani::unwind(8)]
#[kani::stub(alloc::fmt::format, format_stub)]
fn c19_claims_adders_chain() {
    let (mut m, mut hist) = (MClaims::new(), Hist::new());
    let b = claims_setter_steps::<1>(ClaimsSetBuilder::new(), &mut m, &mut hist);
    chain!(b, m; c_claim, c_private_claim);
    let b = claims_setter_steps::<1>(b, &mut m, &mut hist);
    chain!(b, m; c_text_claim, c_claim, c_private_claim);
    let c = b.build();
    m.check(&c);
    kani::cover!(hist.op[0] == C_CWT_ID && hist.ne[0] && hist.op[1] == C_CWT_ID && !hist.ne[1]
        && matches!(c.rest[0].0, ClaimName::Assigned(iana::CwtClaimName::Cnf))
        && matches!(c.rest[3].0, ClaimName::Assigned(iana::CwtClaimName::Reserved))
        && matches!(c.rest[4].0, ClaimName::PrivateUse(-65537)));
    core::mem::forget(c);
}

/// `claim(name, _)` with a name in 1..=7 panics for every such registered name.
#[kani::proof]
#[kani::should_panic]
#[kani::unwind(8)]
#[kani::stub(alloc::fmt::format, format_stub)]
fn c19_claims_claim_reserved_panics() {
    let n: iana::CwtClaimName = any_enum();
    kani::assume(claim_name_reserved(n.to_i64()));
    let mut b = ClaimsSetBuilder::new();
    if kani::any() {
        b = b.text_claim(Txt::any().mk(), Value::Null);
    }
    let b = b.claim(n, Val::any().mk());
    returned_instead_of_panicking();
    core::mem::forget(b);
}

/// `private_claim(id, _)` panics for every id that is not in the private-use range.
#[kani::proof]
#[kani::should_panic]
#[kani::unwind(8)]
#[kani::stub(alloc::fmt::format, format_stub)]
fn c19_claims_private_claim_public_id_panics() {
    let id: i64 = kani::any();
    kani::assume(!claim_id_private(id));
    let mut b = ClaimsSetBuilder::new();
    if kani::any() {
        b = b.cwt_id(Bytes::any().mk());
    }
    let b = b.private_claim(id, Val::any().mk());
    returned_instead_of_panicking();
    core::mem::forget(b);
}

// ---------------------------------------------------------------------------------------------
// context: PartyInfoBuilder, SuppPubInfoBuilder, CoseKdfContextBuilder
// ---------------------------------------------------------------------------------------------

#[derive(Clone, Copy)]
enum Non {
    Bytes(Bytes),
    Integer(i64),
}

impl Non {
    fn any() -> Self {
        if kani::any() {
            Non::Bytes(Bytes::any())
        } else {
            Non::Integer(kani::any())
        }
    }
    fn mk(&self) -> Nonce {
        match self {
            Non::Bytes(b) => Nonce::Bytes(b.mk()),
            Non::Integer(i) => Nonce::Integer(*i),
        }
    }
    fn opt_is(m: &Option<Non>, v: &Option<Nonce>) -> bool {
        match (m, v) {
            (None, None) => true,
            (Some(Non::Bytes(a)), Some(Nonce::Bytes(b))) => a.is(b),
            (Some(Non::Integer(a)), Some(Nonce::Integer(b))) => a == b,
            _ => false,
        }
    }
}

fn party_info_seq<const STEPS: usize>() {
    let mut b = PartyInfoBuilder::new();
    let (mut identity, mut nonce, mut other): (Option<Bytes>, Option<Non>, Option<Bytes>) = (None, None, None);
    let mut hist = Hist::new();
    let mut s = 0;
    while s < STEPS {
        let op: u8 = kani::any();
        kani::assume(op < 3);
        match op {
            0 => {
                let v = Bytes::any();
                identity = Some(v);
                b = b.identity(v.mk());
                hist.push(op, v.len > 0);
            }
            1 => {
                let v = Non::any();
                nonce = Some(v);
                b = b.nonce(v.mk());
                hist.push(op, matches!(v, Non::Integer(_)));
            }
            _ => {
                let v = Bytes::any();
                other = Some(v);
                b = b.other(v.mk());
                hist.push(op, v.len > 0);
            }
        }
        s += 1;
    }
    let p = b.build();
    let PartyInfo { identity: bi, nonce: bn, other: bo } = &p;
    assert!(Bytes::opt_is(&identity, bi));
    assert!(Non::opt_is(&nonce, bn));
    assert!(Bytes::opt_is(&other, bo));
    let (op, ne, z) = (&hist.op, &hist.ne, STEPS - 1);
    kani::cover!(op[0] == 0 && ne[0] && op[1] == 2 && ne[1] && op[z] == 0 && !ne[z]);
    kani::cover!(op[0] == 1 && ne[0] && op[1] == 0 && op[z] == 1 && !ne[z]);
    core::mem::forget(p);
}

#[kani::proof]
#[kani::unwind(8)]
#[kani::stub(alloc::fmt::format, format_stub)]
fn c19_party_info_seq3() {
    party_info_seq::<3>();
}

#[kani::proof]
#[kani::unwind(8)]
#[kani::stub(alloc::fmt::format, format_stub)]
fn c19x_party_info_seq5() {
    party_info_seq::<5>();
}

fn supp_pub_info_seq<const STEPS: usize>() {
    let mut b = SuppPubInfoBuilder::new();
    let (mut kdl, mut protected, mut other): (u64, Hdr, Option<Bytes>) = (0, Hdr::EMPTY, None);
    let mut hist = Hist::new();
    let mut s = 0;
    while s < STEPS {
        let op: u8 = kani::any();
        kani::assume(op < 3);
        match op {
            0 => {
                let v: u64 = kani::any();
                hist.push(op, v != kdl);
                kdl = v;
                b = b.key_data_length(v);
            }
            1 => {
                let h = Hdr::any();
                hist.push(op, h.differs(&protected));
                protected = h;
                b = b.protected(h.mk());
            }
            _ => {
                let v = Bytes::any();
                other = Some(v);
                b = b.other(v.mk());
                hist.push(op, v.len > 0);
            }
        }
        s += 1;
    }
    let p = b.build();
    let SuppPubInfo { key_data_length: bk, protected: bp, other: bo } = &p;
    assert!(*bk == kdl);
    assert!(protected.is_protected(bp));
    assert!(Bytes::opt_is(&other, bo));
    let (op, ne, z) = (&hist.op, &hist.ne, STEPS - 1);
    kani::cover!(op[0] == 1 && ne[0] && op[1] == 0 && ne[1] && op[z] == 1 && ne[z]);
    kani::cover!(op[0] == 0 && ne[0] && op[1] == 2 && op[z] == 0 && ne[z]);
    core::mem::forget(p);
}

#[kani::proof]
#[kani::unwind(8)]
#[kani::stub(alloc::fmt::format, format_stub)]
fn c19_supp_pub_info_seq3() {
    supp_pub_info_seq::<3>();
}

#[kani::proof]
#[kani::unwind(8)]
#[kani::stub(alloc::fmt::format, format_stub)]
fn c19x_supp_pub_info_seq4() {
    supp_pub_info_seq::<4>();
}

/// A `PartyInfo` argument.
#[derive(Clone, Copy)]
struct Pi {
    identity: Option<Bytes>,
    nonce: Option<i64>,
}

impl Pi {
    const EMPTY: Pi = Pi { identity: None, nonce: None };
    fn any() -> Self {
        Pi {
            identity: if kani::any() { Some(Bytes::any()) } else { None },
            nonce: if kani::any() { Some(kani::any()) } else { None },
        }
    }
    fn mk(&self) -> PartyInfo {
        PartyInfo { identity: self.identity.map(|b| b.mk()), nonce: self.nonce.map(Nonce::Integer), other: None }
    }
    fn differs(&self, o: &Pi) -> bool {
        self.nonce != o.nonce
            || match (&self.identity, &o.identity) {
                (None, None) => false,
                (Some(a), Some(b)) => !a.same(b),
                _ => true,
            }
    }
}

/// A `SuppPubInfo` argument.
#[derive(Clone, Copy)]
struct Spi {
    kdl: u64,
    other: Option<Bytes>,
}

impl Spi {
    const EMPTY: Spi = Spi { kdl: 0, other: None };
    fn any() -> Self {
        Spi { kdl: kani::any(), other: if kani::any() { Some(Bytes::any()) } else { None } }
    }
    fn mk(&self) -> SuppPubInfo {
        SuppPubInfo { key_data_length: self.kdl, protected: Default::default(), other: self.other.map(|b| b.mk()) }
    }
}

/// Shadow model of `CoseKdfContext`.  Its fields are private and its only tractable observer is
/// `==` (`to_cbor_value` reaches `ProtectedHeader::cbor_bstr`, which CBMC cannot execute), so the
/// model is turned into a REFERENCE VALUE by the canonical builder sequence "every setter once
/// with the final argument, then the adds in order" and compared with `==`.  Consequence: a defect
/// that is symmetric under that comparison (e.g. `party_u_info` and `party_v_info` consistently
/// swapped) is invisible here; wrong-field writes, lost updates, non-overriding setters and
/// misplaced appends are visible.
struct MKdf {
    alg: iana::Algorithm,
    u: Pi,
    v: Pi,
    s: Spi,
}

impl MKdf {
    /// `CoseKdfContext::default()`: algorithm `Reserved`, empty parties, zero key length.
    fn new() -> Self {
        MKdf { alg: iana::Algorithm::Reserved, u: Pi::EMPTY, v: Pi::EMPTY, s: Spi::EMPTY }
    }
    fn reference(&self) -> CoseKdfContextBuilder {
        CoseKdfContextBuilder::new()
            .algorithm(self.alg)
            .party_u_info(self.u.mk())
            .party_v_info(self.v.mk())
            .supp_pub_info(self.s.mk())
    }
}

const D_ALGORITHM: u8 = 0;
const D_PARTY_U: u8 = 1;
const D_PARTY_V: u8 = 2;
const D_SUPP_PUB: u8 = 3;

fn kdf_setter_steps<const STEPS: usize>(
    mut b: CoseKdfContextBuilder,
    m: &mut MKdf,
    hist: &mut Hist,
) -> CoseKdfContextBuilder {
    let mut s = 0;
    while s < STEPS {
        let op: u8 = kani::any();
        kani::assume(op <= D_SUPP_PUB);
        match op {
            D_ALGORITHM => {
                let a = arg_alg::<false>();
                hist.push(op, a != m.alg);
                m.alg = a;
                b = b.algorithm(a);
            }
            D_PARTY_U => {
                let p = Pi::any();
                hist.push(op, p.differs(&m.u));
                m.u = p;
                b = b.party_u_info(p.mk());
            }
            D_PARTY_V => {
                let p = Pi::any();
                hist.push(op, p.differs(&m.v));
                m.v = p;
                b = b.party_v_info(p.mk());
            }
            _ => {
                let p = Spi::any();
                hist.push(op, p.kdl != m.s.kdl);
                m.s = p;
                b = b.supp_pub_info(p.mk());
            }
        }
        s += 1;
    }
    b
}

fn kdf_setters_seq<const STEPS: usize>() {
    let (mut m, mut hist) = (MKdf::new(), Hist::new());
    let b = kdf_setter_steps::<STEPS>(CoseKdfContextBuilder::new(), &mut m, &mut hist);
    let (built, want) = (b.build(), m.reference().build());
    assert!(built == want);
    let (op, ne, z) = (&hist.op, &hist.ne, STEPS - 1);
    kani::cover!(op[0] == D_PARTY_V && ne[0] && op[z] == D_PARTY_V && ne[z] && (STEPS < 3 || op[1] == D_PARTY_U));
    kani::cover!(op[0] == D_SUPP_PUB && ne[0] && op[z] == D_ALGORITHM && ne[z]);
    core::mem::forget(built);
    core::mem::forget(want);
}

/// All sequences of 2 calls over the four setters, against the canonical reference sequence
/// (3 calls: thorough tier; `==` on two whole contexts is what makes these harnesses slow).
#[kani::proof]
#[kani::unwind(8)]
#[kani::stub(alloc::fmt::format, format_stub)]
fn c19_kdf_context_setters_seq2() {
    kdf_setters_seq::<2>();
}

#[kani::proof]
#[kani::unwind(8)]
#[kani::stub(alloc::fmt::format, format_stub)]
fn c19x_kdf_context_setters_seq3() {
    kdf_setters_seq::<3>();
}

/// `add_supp_priv_info` appends in call order and commutes with the setters:
/// setter, add(x), setter, add(y)  ==  reference setters, add(x), add(y);  and differs from the
/// reference with the two adds exchanged whenever x != y.  (Slow: three whole-context `==`.)
#[kani::proof]
#[kani::unwind(8)]
#[kani::stub(alloc::fmt::format, format_stub)]
fn c19_kdf_context_adders_chain() {
    let (mut m, mut hist) = (MKdf::new(), Hist::new());
    let (x, y) = (Bytes::any(), Bytes::any());
    let b = kdf_setter_steps::<1>(CoseKdfContextBuilder::new(), &mut m, &mut hist);
    let b = b.add_supp_priv_info(x.mk());
    let b = kdf_setter_steps::<1>(b, &mut m, &mut hist);
    let built = b.add_supp_priv_info(y.mk()).build();
    let want = m.reference().add_supp_priv_info(x.mk()).add_supp_priv_info(y.mk()).build();
    let swapped = m.reference().add_supp_priv_info(y.mk()).add_supp_priv_info(x.mk()).build();
    assert!(built == want);
    assert!(x.same(&y) || built != swapped);
    kani::cover!(hist.op[0] == D_PARTY_U && hist.ne[0] && hist.op[1] == D_PARTY_U && hist.ne[1] && !x.same(&y));
    core::mem::forget((built, want, swapped));
}
