//! C19 — builders apply exactly the documented effect of each call, in any order.
//!
//! Every harness drives one coset builder with a sequence of public-method calls whose arguments
//! are symbolic and, in lock-step, a SHADOW MODEL written here from the *documented* effect of each
//! call (never by calling coset).  After `build()` EVERY public field of the built value is
//! compared with the model (the built struct is destructured exhaustively, so a new field cannot be
//! forgotten), hence a setter that also touches, or fails to touch, another field is caught.
//!
//! Two sequence shapes are used, dictated by what CBMC can execute (measured, see the report):
//!
//! * `*_setters_seq3` / `c19x_*_seq4`: every step picks one of the builder's *field setters* by
//!   `kani::any()`; all orders of all setters up to that length are explored.
//! * `*_chain_*` / `*_adders_*`: the *adders* (`add_*`, `value`, `param`, `claim`, ...: methods that
//!   `Vec::push`) sit at fixed positions of the sequence, optionally with symbolic setter steps in
//!   between.  A symbolic choice *between* pushing and not pushing merges `Vec` states (allocated
//!   or not, capacity 0 or 4) and every later `push` then explores `realloc` with symbolic sizes:
//!   2 symbolic steps over all 11 `HeaderBuilder` methods already need > 19 M SAT variables and do
//!   not finish in 10 minutes, so the order of adders is enumerated by the harness text instead.
//!
//! Arguments are described by small `Copy` "codes" (`Bytes`, `Txt`, `Val`, `Hdr`, `Sig`, `Rcp`, ...)
//! from which the real coset argument is made (`mk`) and against which a built field is compared
//! (`is`) without loops and without `Value`'s recursive `==`.
//!
//! "Must panic" guards: `#[kani::should_panic]` alone only shows that *some* input panics.  The
//! guard harnesses therefore call `returned_instead_of_panicking()` after the guarded call: it
//! trips a non-panic check class (CBMC's NaN check), which `should_panic` rejects.  Such a harness
//! passes iff the call panics for EVERY input admitted by its assumption.  (Validated: widening
//! the assumption of `c19_header_value_reserved_panics` to 1..=8 makes it FAIL.)
//!
//! Not covered here (other properties; they reach `into_writer`, which CBMC cannot execute):
//! the `create_signature` / `create_tag` / `create_ciphertext` / `add_created_signature` helpers.
//! Not constructible: a builder whose protected header already has `original_data = Some(..)`
//! (builders are tuple structs with a private field), so "discards retained wire bytes" is checked
//! as "after `protected(h)` the built `original_data` is `None`" from the reachable states.
use crate::stubs::*;
use crate::util::*;
use alloc::string::String;
use alloc::vec::Vec;
use coset::cbor::value::Value;
use coset::cwt::{ClaimName, ClaimsSet, ClaimsSetBuilder, Timestamp};
use coset::iana::{self, EnumI64};
use coset::{
    Algorithm, ContentType, CoseEncrypt, CoseEncrypt0, CoseEncrypt0Builder, CoseEncryptBuilder,
    CoseKdfContextBuilder, CoseKey, CoseKeyBuilder, CoseMac, CoseMac0, CoseMac0Builder,
    CoseMacBuilder, CoseRecipient, CoseRecipientBuilder, CoseSign, CoseSign1, CoseSign1Builder,
    CoseSignBuilder, CoseSignature, CoseSignatureBuilder, Header, HeaderBuilder, KeyOperation,
    KeyType, Label, Nonce, PartyInfo, PartyInfoBuilder, ProtectedHeader, RegisteredLabel,
    SuppPubInfo, SuppPubInfoBuilder,
};

// ---------------------------------------------------------------------------------------------
// Argument codes
// ---------------------------------------------------------------------------------------------

/// Capacity of the model's append lists and of the call history (>= the longest sequence).
const CAP: usize = 6;

/// Fixed-capacity append list (cheaper for CBMC than a `Vec` in the model).
#[derive(Clone, Copy)]
struct List<T: Copy> {
    n: usize,
    items: [T; CAP],
}

impl<T: Copy> List<T> {
    fn new(fill: T) -> Self {
        List { n: 0, items: [fill; CAP] }
    }
    fn push(&mut self, t: T) {
        self.items[self.n] = t;
        self.n += 1;
    }
}

/// A byte string of length 0..=2.
#[derive(Clone, Copy)]
struct Bytes {
    b: [u8; 2],
    len: usize,
}

impl Bytes {
    const EMPTY: Bytes = Bytes { b: [0; 2], len: 0 };
    fn any() -> Self {
        let b: [u8; 2] = kani::any();
        let len: usize = kani::any();
        kani::assume(len <= 2);
        Bytes { b, len }
    }
    /// One allocation, no branches: a 2-byte `Vec` whose length is then set to `len` (<= 2).
    fn mk(&self) -> Vec<u8> {
        let mut v = alloc::vec![self.b[0], self.b[1]];
        // SAFETY: len <= 2 = capacity, both elements initialised, u8 has no drop.
        unsafe { v.set_len(self.len) };
        v
    }
    fn is(&self, v: &[u8]) -> bool {
        v.len() == self.len && (self.len < 1 || v[0] == self.b[0]) && (self.len < 2 || v[1] == self.b[1])
    }
    fn same(&self, o: &Bytes) -> bool {
        self.len == o.len && (self.len < 1 || self.b[0] == o.b[0]) && (self.len < 2 || self.b[1] == o.b[1])
    }
    fn opt_is(m: &Option<Bytes>, v: &Option<Vec<u8>>) -> bool {
        match (m, v) {
            (None, None) => true,
            (Some(m), Some(v)) => m.is(v),
            _ => false,
        }
    }
}

/// An ASCII text of length 0..=2.
#[derive(Clone, Copy)]
struct Txt {
    b: [u8; 2],
    len: usize,
}

impl Txt {
    const EMPTY: Txt = Txt { b: [0; 2], len: 0 };
    fn any() -> Self {
        let b: [u8; 2] = kani::any();
        kani::assume(b[0] < 0x80 && b[1] < 0x80);
        let len: usize = kani::any();
        kani::assume(len <= 2);
        Txt { b, len }
    }
    fn mk(&self) -> String {
        let mut v = alloc::vec![self.b[0], self.b[1]];
        // SAFETY: len <= 2 = capacity, both elements initialised; the bytes are ASCII.
        unsafe {
            v.set_len(self.len);
            String::from_utf8_unchecked(v)
        }
    }
    fn is(&self, s: &str) -> bool {
        let v = s.as_bytes();
        v.len() == self.len && (self.len < 1 || v[0] == self.b[0]) && (self.len < 2 || v[1] == self.b[1])
    }
    fn opt_is(m: &Option<Txt>, v: &Option<String>) -> bool {
        match (m, v) {
            (None, None) => true,
            (Some(m), Some(v)) => m.is(v),
            _ => false,
        }
    }
}

/// A leaf `Value` (only identity matters to a builder).
#[derive(Clone, Copy)]
enum Val {
    Null,
    Bool(bool),
    Int(i64),
    Bytes(Bytes),
}

impl Val {
    /// Null / Bool / Integer palette for caller-supplied values.
    fn any() -> Self {
        let k: u8 = kani::any();
        if k == 0 {
            Val::Null
        } else if k == 1 {
            Val::Bool(kani::any())
        } else {
            Val::Int(kani::any())
        }
    }
    fn mk(&self) -> Value {
        match self {
            Val::Null => Value::Null,
            Val::Bool(b) => Value::Bool(*b),
            Val::Int(i) => Value::Integer((*i).into()),
            Val::Bytes(b) => Value::Bytes(b.mk()),
        }
    }
    fn is(&self, v: &Value) -> bool {
        match (self, v) {
            (Val::Null, Value::Null) => true,
            (Val::Bool(a), Value::Bool(b)) => a == b,
            (Val::Int(a), Value::Integer(b)) => i128::from(*b) == *a as i128,
            (Val::Bytes(a), Value::Bytes(b)) => a.is(b),
            _ => false,
        }
    }
}

/// Every value of an IANA registry enum (through its `from_i64`, over all of `i64`).
fn any_enum<T: EnumI64>() -> T {
    let i: i64 = kani::any();
    let e = T::from_i64(i);
    kani::assume(e.is_some());
    e.unwrap()
}

/// One of three values (for the order-exploring harnesses, where only identity matters).
fn pick3<T>(a: T, b: T, c: T) -> T {
    let k: u8 = kani::any();
    if k == 0 {
        a
    } else if k == 1 {
        b
    } else {
        c
    }
}

/// Algorithm argument: every registry value if `FULL`, else a palette of three.
fn arg_alg<const FULL: bool>() -> iana::Algorithm {
    if FULL {
        any_enum()
    } else {
        pick3(iana::Algorithm::ES256, iana::Algorithm::A128GCM, iana::Algorithm::Reserved)
    }
}

fn alg_is(m: &Option<iana::Algorithm>, v: &Option<Algorithm>) -> bool {
    match (m, v) {
        (None, None) => true,
        (Some(a), Some(Algorithm::Assigned(b))) => a == b,
        _ => false,
    }
}

/// A `Header` argument: key id, IV and optional algorithm set, everything else empty.
#[derive(Clone, Copy)]
struct Hdr {
    kid: Bytes,
    iv: Bytes,
    alg: Option<iana::Algorithm>,
}

impl Hdr {
    const EMPTY: Hdr = Hdr { kid: Bytes::EMPTY, iv: Bytes::EMPTY, alg: None };
    fn any() -> Self {
        let alg = if kani::any() {
            Some(if kani::any() { iana::Algorithm::ES256 } else { iana::Algorithm::A128GCM })
        } else {
            None
        };
        Hdr { kid: Bytes::any(), iv: Bytes::any(), alg }
    }
    fn mk(&self) -> Header {
        Header {
            alg: self.alg.map(Algorithm::Assigned),
            key_id: self.kid.mk(),
            iv: self.iv.mk(),
            ..Default::default()
        }
    }
    fn is(&self, h: &Header) -> bool {
        let Header { alg, crit, content_type, key_id, iv, partial_iv, counter_signatures, rest } = h;
        alg_is(&self.alg, alg)
            && crit.is_empty()
            && content_type.is_none()
            && self.kid.is(key_id)
            && self.iv.is(iv)
            && partial_iv.is_empty()
            && counter_signatures.is_empty()
            && rest.is_empty()
    }
    fn differs(&self, o: &Hdr) -> bool {
        !self.kid.same(&o.kid) || !self.iv.same(&o.iv) || self.alg != o.alg
    }
    /// `p` is exactly what `protected(self)` documents: no retained wire bytes, header = self.
    fn is_protected(&self, p: &ProtectedHeader) -> bool {
        let ProtectedHeader { original_data, header } = p;
        original_data.is_none() && self.is(header)
    }
}

/// A `CoseSignature` argument: signature bytes and unprotected key id.
#[derive(Clone, Copy)]
struct Sig {
    sig: Bytes,
    kid: Bytes,
}

impl Sig {
    const EMPTY: Sig = Sig { sig: Bytes::EMPTY, kid: Bytes::EMPTY };
    fn any() -> Self {
        Sig { sig: Bytes::any(), kid: Bytes::any() }
    }
    fn mk(&self) -> CoseSignature {
        CoseSignature {
            unprotected: Header { key_id: self.kid.mk(), ..Default::default() },
            signature: self.sig.mk(),
            ..Default::default()
        }
    }
    fn is(&self, s: &CoseSignature) -> bool {
        let CoseSignature { protected, unprotected, signature } = s;
        Hdr::EMPTY.is_protected(protected)
            && Hdr { kid: self.kid, ..Hdr::EMPTY }.is(unprotected)
            && self.sig.is(signature)
    }
}

/// A `CoseRecipient` argument: optional ciphertext and unprotected key id.
#[derive(Clone, Copy)]
struct Rcp {
    ct: Option<Bytes>,
    kid: Bytes,
}

impl Rcp {
    const EMPTY: Rcp = Rcp { ct: None, kid: Bytes::EMPTY };
    fn any() -> Self {
        Rcp { ct: if kani::any() { Some(Bytes::any()) } else { None }, kid: Bytes::any() }
    }
    fn mk(&self) -> CoseRecipient {
        CoseRecipient {
            unprotected: Header { key_id: self.kid.mk(), ..Default::default() },
            ciphertext: self.ct.map(|c| c.mk()),
            ..Default::default()
        }
    }
    fn is(&self, r: &CoseRecipient) -> bool {
        let CoseRecipient { protected, unprotected, ciphertext, recipients } = r;
        Hdr::EMPTY.is_protected(protected)
            && Hdr { kid: self.kid, ..Hdr::EMPTY }.is(unprotected)
            && Bytes::opt_is(&self.ct, ciphertext)
            && recipients.is_empty()
    }
}

/// History of the calls made so far (for the `cover!` witnesses).
struct Hist {
    n: usize,
    op: [u8; CAP],
    /// per call: the argument was non-empty / differed from the default
    ne: [bool; CAP],
}

impl Hist {
    fn new() -> Self {
        Hist { n: 0, op: [0xff; CAP], ne: [false; CAP] }
    }
    fn push(&mut self, op: u8, ne: bool) {
        self.op[self.n] = op;
        self.ne[self.n] = ne;
        self.n += 1;
    }
}

/// Reached only when a call that is documented to panic returned instead.  Under Kani the
/// multiplication `x * 0` (x = inf) fails CBMC's NaN check, which is not a panic, so a
/// `#[kani::should_panic]` harness that can reach this line FAILS ("failures other than panics");
/// natively (concrete playback, where `should_panic` is inert and a NaN is harmless) the `panic!`
/// makes the replayed test fail.
#[inline(never)]
fn returned_instead_of_panicking() {
    let x: f64 = kani::any();
    let nan = x * 0.0; // NaN for x = +-inf
    core::hint::black_box(nan);
    panic!("C19: the call returned although its documented panic was required");
}

// ---------------------------------------------------------------------------------------------
// HeaderBuilder
// ---------------------------------------------------------------------------------------------

#[derive(Clone, Copy)]
enum Crit {
    Assigned(iana::HeaderParameter),
    Text(Txt),
}

impl Crit {
    fn is(&self, v: &RegisteredLabel<iana::HeaderParameter>) -> bool {
        match (self, v) {
            (Crit::Assigned(a), RegisteredLabel::Assigned(b)) => a == b,
            (Crit::Text(a), RegisteredLabel::Text(b)) => a.is(b),
            _ => false,
        }
    }
}

#[derive(Clone, Copy)]
enum Ctype {
    None,
    Format(iana::CoapContentFormat),
    Text(Txt),
}

impl Ctype {
    fn is(&self, v: &Option<ContentType>) -> bool {
        match (self, v) {
            (Ctype::None, None) => true,
            (Ctype::Format(a), Some(ContentType::Assigned(b))) => a == b,
            (Ctype::Text(a), Some(ContentType::Text(b))) => a.is(b),
            _ => false,
        }
    }
}

#[derive(Clone, Copy)]
enum Lab {
    Int(i64),
    Text(Txt),
}

impl Lab {
    fn is(&self, v: &Label) -> bool {
        match (self, v) {
            (Lab::Int(a), Label::Int(b)) => a == b,
            (Lab::Text(a), Label::Text(b)) => a.is(b),
            _ => false,
        }
    }
}

/// Shadow model of `Header` as a builder can produce it.
struct MHeader {
    alg: Option<iana::Algorithm>,
    crit: List<Crit>,
    content_type: Ctype,
    key_id: Bytes,
    iv: Bytes,
    partial_iv: Bytes,
    counter_signatures: List<Sig>,
    rest: List<(Lab, Val)>,
}

impl MHeader {
    fn new() -> Self {
        MHeader {
            alg: None,
            crit: List::new(Crit::Text(Txt::EMPTY)),
            content_type: Ctype::None,
            key_id: Bytes::EMPTY,
            iv: Bytes::EMPTY,
            partial_iv: Bytes::EMPTY,
            counter_signatures: List::new(Sig::EMPTY),
            rest: List::new((Lab::Int(0), Val::Null)),
        }
    }
    fn check(&self, h: &Header) {
        let Header { alg, crit, content_type, key_id, iv, partial_iv, counter_signatures, rest } = h;
        assert!(alg_is(&self.alg, alg));
        assert!(self.content_type.is(content_type));
        assert!(self.key_id.is(key_id));
        assert!(self.iv.is(iv));
        assert!(self.partial_iv.is(partial_iv));
        assert!(crit.len() == self.crit.n);
        assert!(counter_signatures.len() == self.counter_signatures.n);
        assert!(rest.len() == self.rest.n);
        let mut k = 0;
        while k < CAP {
            if k < self.crit.n {
                assert!(self.crit.items[k].is(&crit[k]));
            }
            if k < self.counter_signatures.n {
                assert!(self.counter_signatures.items[k].is(&counter_signatures[k]));
            }
            if k < self.rest.n {
                assert!(self.rest.items[k].0.is(&rest[k].0));
                assert!(self.rest.items[k].1.is(&rest[k].1));
            }
            k += 1;
        }
        // the consequence named in the property text
        assert!(iv.is_empty() || partial_iv.is_empty());
    }
}

const H_KEY_ID: u8 = 0;
const H_ALGORITHM: u8 = 1;
const H_CONTENT_FORMAT: u8 = 2;
const H_CONTENT_TYPE: u8 = 3;
const H_IV: u8 = 4;
const H_PARTIAL_IV: u8 = 5;
const H_SETTERS: u8 = 6;

/// The reserved range of `HeaderBuilder::value` per the property text: labels 1-7 (the doc
/// comment's "[1, 6]" predates the typed counter-signature field, label 7).
fn header_label_reserved(l: i64) -> bool {
    1 <= l && l <= 7
}

// One function per public method: the call on coset's builder and its documented effect on the
// model.  The returned flag says whether the argument was non-empty (for witnesses).

fn h_key_id(b: HeaderBuilder, m: &mut MHeader) -> (HeaderBuilder, bool) {
    let v = Bytes::any();
    m.key_id = v;
    (b.key_id(v.mk()), v.len > 0)
}

fn h_algorithm<const FULL: bool>(b: HeaderBuilder, m: &mut MHeader) -> (HeaderBuilder, bool) {
    let a = arg_alg::<FULL>();
    m.alg = Some(a);
    (b.algorithm(a), true)
}

fn h_add_critical(b: HeaderBuilder, m: &mut MHeader) -> (HeaderBuilder, bool) {
    let p: iana::HeaderParameter = any_enum();
    m.crit.push(Crit::Assigned(p));
    (b.add_critical(p), true)
}

fn h_add_critical_label_assigned(b: HeaderBuilder, m: &mut MHeader) -> (HeaderBuilder, bool) {
    let p: iana::HeaderParameter = any_enum();
    m.crit.push(Crit::Assigned(p));
    (b.add_critical_label(RegisteredLabel::Assigned(p)), true)
}

fn h_add_critical_label_text(b: HeaderBuilder, m: &mut MHeader) -> (HeaderBuilder, bool) {
    let t = Txt::any();
    m.crit.push(Crit::Text(t));
    (b.add_critical_label(RegisteredLabel::Text(t.mk())), t.len > 0)
}

fn h_content_format<const FULL: bool>(b: HeaderBuilder, m: &mut MHeader) -> (HeaderBuilder, bool) {
    let f: iana::CoapContentFormat = if FULL {
        any_enum()
    } else {
        pick3(
            iana::CoapContentFormat::TextPlainUtf8,
            iana::CoapContentFormat::Cbor,
            iana::CoapContentFormat::CoseSign1,
        )
    };
    m.content_type = Ctype::Format(f);
    (b.content_format(f), true)
}

fn h_content_type(b: HeaderBuilder, m: &mut MHeader) -> (HeaderBuilder, bool) {
    let t = Txt::any();
    m.content_type = Ctype::Text(t);
    (b.content_type(t.mk()), t.len > 0)
}

fn h_iv(b: HeaderBuilder, m: &mut MHeader) -> (HeaderBuilder, bool) {
    let v = Bytes::any();
    m.iv = v;
    m.partial_iv = Bytes::EMPTY;
    (b.iv(v.mk()), v.len > 0)
}

fn h_partial_iv(b: HeaderBuilder, m: &mut MHeader) -> (HeaderBuilder, bool) {
    let v = Bytes::any();
    m.partial_iv = v;
    m.iv = Bytes::EMPTY;
    (b.partial_iv(v.mk()), v.len > 0)
}

fn h_add_counter_signature(b: HeaderBuilder, m: &mut MHeader) -> (HeaderBuilder, bool) {
    let g = Sig::any();
    m.counter_signatures.push(g);
    (b.add_counter_signature(g.mk()), true)
}

/// `value(l, v)` for every label outside the reserved range: appended at the end of `rest`.
fn h_value(b: HeaderBuilder, m: &mut MHeader) -> (HeaderBuilder, bool) {
    let l: i64 = kani::any();
    kani::assume(!header_label_reserved(l));
    let v = Val::any();
    m.rest.push((Lab::Int(l), v));
    (b.value(l, v.mk()), true)
}

fn h_text_value(b: HeaderBuilder, m: &mut MHeader) -> (HeaderBuilder, bool) {
    let t = Txt::any();
    let v = Val::any();
    m.rest.push((Lab::Text(t), v));
    (b.text_value(t.mk(), v.mk()), t.len > 0)
}

/// `STEPS` symbolic calls, each any of the six field setters.
fn header_setter_steps<const STEPS: usize>(
    mut b: HeaderBuilder,
    m: &mut MHeader,
    hist: &mut Hist,
) -> HeaderBuilder {
    let mut s = 0;
    while s < STEPS {
        let op: u8 = kani::any();
        kani::assume(op < H_SETTERS);
        let (nb, ne) = match op {
            H_KEY_ID => h_key_id(b, m),
            H_ALGORITHM => h_algorithm::<false>(b, m),
            H_CONTENT_FORMAT => h_content_format::<false>(b, m),
            H_CONTENT_TYPE => h_content_type(b, m),
            H_IV => h_iv(b, m),
            _ => h_partial_iv(b, m),
        };
        b = nb;
        hist.push(op, ne);
        s += 1;
    }
    b
}

fn header_setters_seq<const STEPS: usize>() {
    let (mut m, mut hist) = (MHeader::new(), Hist::new());
    let b = header_setter_steps::<STEPS>(HeaderBuilder::new(), &mut m, &mut hist);
    let h = b.build();
    m.check(&h);
    let (op, ne, z) = (&hist.op, &hist.ne, STEPS - 1);
    kani::cover!(op[0] == H_IV && ne[0] && op[1] == H_PARTIAL_IV && ne[1] && h.iv.is_empty());
    kani::cover!(op[0] == H_KEY_ID && ne[0] && op[1] == H_PARTIAL_IV && ne[1] && op[z] == H_IV && !ne[z]
        && h.partial_iv.is_empty());
    core::mem::forget(h);
}

/// All sequences of 3 calls over the six field setters, from a fresh builder.
#[kani::proof]
#[kani::unwind(8)]
#[kani::stub(alloc::fmt::format, format_stub)]
fn c19_header_setters_seq3() {
    header_setters_seq::<3>();
}

#[kani::proof]
#[kani::unwind(8)]
#[kani::stub(alloc::fmt::format, format_stub)]
fn c19x_header_setters_seq4() {
    header_setters_seq::<4>();
}

macro_rules! chain {
    ($b:ident, $m:ident; $($f:expr),+ $(,)?) => {
        $( let ($b, _) = $f($b, &mut $m); )+
    };
}

// Straight-line chains: together they call every method, every adder at least twice, each adder
// both before and after setters and other adders; enum arguments range over the whole registry.
// (Kept short: the cost of a harness is dominated by the trace CBMC builds per `cover!`.)

#[kani::proof]
#[kani::unwind(8)]
#[kani::stub(alloc::fmt::format, format_stub)]
fn c19_header_chain_a() {
    let mut m = MHeader::new();
    let b = HeaderBuilder::new();
    chain!(b, m;
        h_key_id, h_algorithm::<true>, h_add_critical, h_add_critical_label_text,
        h_content_format::<true>, h_content_type, h_add_critical,
    );
    let h = b.build();
    m.check(&h);
    kani::cover!(h.crit.len() == 3 && h.key_id.len() == 2 && matches!(h.crit[1], RegisteredLabel::Text(_)));
    core::mem::forget(h);
}

#[kani::proof]
#[kani::unwind(8)]
#[kani::stub(alloc::fmt::format, format_stub)]
fn c19_header_chain_b() {
    let mut m = MHeader::new();
    let b = HeaderBuilder::new();
    chain!(b, m;
        h_iv, h_value, h_partial_iv, h_text_value, h_add_counter_signature, h_value,
        h_add_counter_signature,
    );
    let h = b.build();
    m.check(&h);
    kani::cover!(h.rest.len() == 3 && matches!(h.rest[0].0, Label::Int(0)) && matches!(h.rest[2].0, Label::Int(8))
        && h.partial_iv.len() == 2);
    core::mem::forget(h);
}

#[kani::proof]
#[kani::unwind(8)]
#[kani::stub(alloc::fmt::format, format_stub)]
fn c19_header_chain_c() {
    let mut m = MHeader::new();
    let b = HeaderBuilder::new();
    chain!(b, m;
        h_text_value, h_add_critical_label_assigned, h_value, h_key_id, h_add_counter_signature,
        h_text_value, h_content_type, h_content_format::<true>, h_partial_iv, h_iv,
    );
    let h = b.build();
    m.check(&h);
    kani::cover!(h.rest.len() == 3 && matches!(h.rest[1].0, Label::Int(i64::MIN)) && h.iv.len() == 1);
    core::mem::forget(h);
}

/// Adders at fixed positions with a symbolic setter call before, between and after them.
#[kani::proof]
#[kani::unwind(8)]
#[kani::stub(alloc::fmt::format, format_stub)]
fn c19_header_adders_amid_setters() {
    let (mut m, mut hist) = (MHeader::new(), Hist::new());
    let b = header_setter_steps::<1>(HeaderBuilder::new(), &mut m, &mut hist);
    chain!(b, m; h_value, h_add_critical);
    let b = header_setter_steps::<1>(b, &mut m, &mut hist);
    chain!(b, m; h_add_counter_signature, h_text_value, h_value);
    let b = header_setter_steps::<1>(b, &mut m, &mut hist);
    let h = b.build();
    m.check(&h);
    let (op, ne) = (&hist.op, &hist.ne);
    kani::cover!(op[0] == H_IV && ne[0] && op[1] == H_KEY_ID && op[2] == H_PARTIAL_IV && ne[2] && h.rest.len() == 3);
    core::mem::forget(h);
}

/// `value(l, _)` with a reserved label (1..=7) panics for every such label, whatever was called
/// before.
#[kani::proof]
#[kani::should_panic]
#[kani::unwind(8)]
#[kani::stub(alloc::fmt::format, format_stub)]
fn c19_header_value_reserved_panics() {
    let l: i64 = kani::any();
    kani::assume(header_label_reserved(l));
    let mut b = HeaderBuilder::new();
    if kani::any() {
        b = b.key_id(Bytes::any().mk());
    }
    if kani::any() {
        b = b.value(0, Value::Null);
    }
    let b = b.value(l, Val::any().mk());
    returned_instead_of_panicking();
    core::mem::forget(b);
}

// ---------------------------------------------------------------------------------------------
// Message builders: CoseSignature, CoseSign, CoseSign1, CoseMac, CoseMac0, CoseEncrypt,
// CoseEncrypt0, CoseRecipient
// ---------------------------------------------------------------------------------------------

/// Shadow model shared by the eight message builders (a builder uses the fields it has).
struct MMsg {
    protected: Hdr,
    unprotected: Hdr,
    /// `signature` / `tag`
    bytes: Bytes,
    /// `payload` / `ciphertext`
    opt: Option<Bytes>,
    sigs: List<Sig>,
    rcps: List<Rcp>,
}

impl MMsg {
    fn new() -> Self {
        MMsg {
            protected: Hdr::EMPTY,
            unprotected: Hdr::EMPTY,
            bytes: Bytes::EMPTY,
            opt: None,
            sigs: List::new(Sig::EMPTY),
            rcps: List::new(Rcp::EMPTY),
        }
    }
}

const M_PROTECTED: u8 = 0;
const M_UNPROTECTED: u8 = 1;
const M_BYTES: u8 = 2;
const M_OPT: u8 = 3;

/// Uniform view of a message builder: which public methods it has and how to call them.
trait Msg: Sized {
    type Built;
    const BYTES: bool;
    const OPT: bool;
    /// 0 = no adder, 1 = adds `CoseSignature`s, 2 = adds `CoseRecipient`s
    const ADDS: u8;
    fn new() -> Self;
    fn protected(self, h: Header) -> Self;
    fn unprotected(self, h: Header) -> Self;
    fn bytes(self, v: Vec<u8>) -> Self;
    fn opt(self, v: Vec<u8>) -> Self;
    fn add_sig(self, s: CoseSignature) -> Self;
    fn add_rcp(self, r: CoseRecipient) -> Self;
    fn build(self) -> Self::Built;
    /// Compare every field of the built value with the model.
    fn check(t: &Self::Built, m: &MMsg);
}

macro_rules! opt_call {
    ($self:ident, $arg:ident, ) => {{
        let _ = $arg;
        unreachable!()
    }};
    ($self:ident, $arg:ident, $method:ident) => {
        $self.$method($arg)
    };
}

macro_rules! impl_msg {
    ($B:ident => $T:ident {
        bytes: [$($bf:ident)?], opt: [$($of:ident)?],
        sigs: [$($sf:ident . $sm:ident)?], rcps: [$($rf:ident . $rm:ident)?]
    }) => {
        impl Msg for $B {
            type Built = $T;
            const BYTES: bool = false $(|| stringify!($bf).len() > 0)?;
            const OPT: bool = false $(|| stringify!($of).len() > 0)?;
            const ADDS: u8 = 0 $(+ 1 + 0 * stringify!($sf).len() as u8)? $(+ 2 + 0 * stringify!($rf).len() as u8)?;
            fn new() -> Self {
                $B::new()
            }
            fn protected(self, h: Header) -> Self {
                $B::protected(self, h)
            }
            fn unprotected(self, h: Header) -> Self {
                $B::unprotected(self, h)
            }
            fn bytes(self, v: Vec<u8>) -> Self {
                opt_call!(self, v, $($bf)?)
            }
            fn opt(self, v: Vec<u8>) -> Self {
                opt_call!(self, v, $($of)?)
            }
            fn add_sig(self, s: CoseSignature) -> Self {
                opt_call!(self, s, $($sm)?)
            }
            fn add_rcp(self, r: CoseRecipient) -> Self {
                opt_call!(self, r, $($rm)?)
            }
            fn build(self) -> $T {
                $B::build(self)
            }
            fn check(t: &$T, m: &MMsg) {
                // exhaustive: a field added to the struct makes this fail to compile
                let $T { protected, unprotected, $($bf,)? $($of,)? $($sf,)? $($rf,)? } = t;
                assert!(m.protected.is_protected(protected));
                assert!(m.unprotected.is(unprotected));
                $( assert!(m.bytes.is($bf)); )?
                $( assert!(Bytes::opt_is(&m.opt, $of)); )?
                $(
                    assert!($sf.len() == m.sigs.n);
                    let mut k = 0;
                    while k < CAP {
                        if k < m.sigs.n {
                            assert!(m.sigs.items[k].is(&$sf[k]));
                        }
                        k += 1;
                    }
                )?
                $(
                    assert!($rf.len() == m.rcps.n);
                    let mut k = 0;
                    while k < CAP {
                        if k < m.rcps.n {
                            assert!(m.rcps.items[k].is(&$rf[k]));
                        }
                        k += 1;
                    }
                )?
            }
        }
    };
}

impl_msg!(CoseSignatureBuilder => CoseSignature { bytes: [signature], opt: [], sigs: [], rcps: [] });
impl_msg!(CoseSignBuilder => CoseSign { bytes: [], opt: [payload], sigs: [signatures.add_signature], rcps: [] });
impl_msg!(CoseSign1Builder => CoseSign1 { bytes: [signature], opt: [payload], sigs: [], rcps: [] });
impl_msg!(CoseMacBuilder => CoseMac { bytes: [tag], opt: [payload], sigs: [], rcps: [recipients.add_recipient] });
impl_msg!(CoseMac0Builder => CoseMac0 { bytes: [tag], opt: [payload], sigs: [], rcps: [] });
impl_msg!(CoseEncryptBuilder => CoseEncrypt { bytes: [], opt: [ciphertext], sigs: [], rcps: [recipients.add_recipient] });
impl_msg!(CoseEncrypt0Builder => CoseEncrypt0 { bytes: [], opt: [ciphertext], sigs: [], rcps: [] });
impl_msg!(CoseRecipientBuilder => CoseRecipient { bytes: [], opt: [ciphertext], sigs: [], rcps: [recipients.add_recipient] });

/// `STEPS` symbolic calls, each any of the builder's field setters.
fn msg_setter_steps<M: Msg, const STEPS: usize>(mut b: M, m: &mut MMsg, hist: &mut Hist) -> M {
    let mut s = 0;
    while s < STEPS {
        let op: u8 = kani::any();
        kani::assume(op <= M_UNPROTECTED || (op == M_BYTES && M::BYTES) || (op == M_OPT && M::OPT));
        match op {
            M_PROTECTED => {
                let h = Hdr::any();
                hist.push(op, h.differs(&m.protected));
                m.protected = h;
                b = b.protected(h.mk());
            }
            M_UNPROTECTED => {
                let h = Hdr::any();
                hist.push(op, h.differs(&m.unprotected));
                m.unprotected = h;
                b = b.unprotected(h.mk());
            }
            M_BYTES if M::BYTES => {
                let v = Bytes::any();
                hist.push(op, !v.same(&m.bytes));
                m.bytes = v;
                b = b.bytes(v.mk());
            }
            M_OPT if M::OPT => {
                let v = Bytes::any();
                hist.push(op, v.len > 0);
                m.opt = Some(v);
                b = b.opt(v.mk());
            }
            _ => {}
        }
        s += 1;
    }
    b
}

/// All sequences of `STEPS` setter calls from a fresh builder.
fn msg_setters_seq<M: Msg, const STEPS: usize>() {
    let (mut m, mut hist) = (MMsg::new(), Hist::new());
    let b = msg_setter_steps::<M, STEPS>(M::new(), &mut m, &mut hist);
    let t = b.build();
    M::check(&t, &m);
    let (op, ne, z) = (&hist.op, &hist.ne, STEPS - 1);
    // a later protected() overrides an earlier, different one, with an unrelated call in between
    kani::cover!(op[0] == M_PROTECTED && ne[0] && op[1] >= M_BYTES && op[z] == M_PROTECTED && ne[z]);
    // the same non-header field set twice
    kani::cover!(op[0] >= M_BYTES && op[1] == M_UNPROTECTED && ne[1] && op[z] == op[0] && ne[z]);
    core::mem::forget(t);
}

/// setter?, add(x), setter?, add(y), setter? -- adders at fixed positions, symbolic setters around.
fn msg_adder_chain<M: Msg>() {
    let (mut m, mut hist) = (MMsg::new(), Hist::new());
    let mut b = msg_setter_steps::<M, 1>(M::new(), &mut m, &mut hist);
    let mut round = 0;
    while round < 2 {
        if M::ADDS == 1 {
            let g = Sig::any();
            m.sigs.push(g);
            b = b.add_sig(g.mk());
        } else {
            let r = Rcp::any();
            m.rcps.push(r);
            b = b.add_rcp(r.mk());
        }
        b = msg_setter_steps::<M, 1>(b, &mut m, &mut hist);
        round += 1;
    }
    let t = b.build();
    M::check(&t, &m);
    let (op, ne) = (&hist.op, &hist.ne);
    kani::cover!(op[0] == M_PROTECTED && ne[0] && op[1] == M_OPT && op[2] == M_PROTECTED && ne[2]
        && m.sigs.n + m.rcps.n == 2);
    core::mem::forget(t);
}

macro_rules! msg_harnesses {
    ($B:ident: $seq3:ident, $seq4:ident $(, $chain:ident)?) => {
        #[kani::proof]
        #[kani::unwind(8)]
        #[kani::stub(alloc::fmt::format, format_stub)]
        fn $seq3() {
            msg_setters_seq::<$B, 3>();
        }
        #[kani::proof]
        #[kani::unwind(8)]
        #[kani::stub(alloc::fmt::format, format_stub)]
        fn $seq4() {
            msg_setters_seq::<$B, 4>();
        }
        $(
            #[kani::proof]
            #[kani::unwind(8)]
            #[kani::stub(alloc::fmt::format, format_stub)]
            fn $chain() {
                msg_adder_chain::<$B>();
            }
        )?
    };
}

msg_harnesses!(CoseSignatureBuilder: c19_signature_setters_seq3, c19x_signature_setters_seq4);
msg_harnesses!(CoseSignBuilder: c19_sign_setters_seq3, c19x_sign_setters_seq4, c19_sign_adder_chain);
msg_harnesses!(CoseSign1Builder: c19_sign1_setters_seq3, c19x_sign1_setters_seq4);
msg_harnesses!(CoseMacBuilder: c19_mac_setters_seq3, c19x_mac_setters_seq4, c19_mac_adder_chain);
msg_harnesses!(CoseMac0Builder: c19_mac0_setters_seq3, c19x_mac0_setters_seq4);
msg_harnesses!(CoseEncryptBuilder: c19_encrypt_setters_seq3, c19x_encrypt_setters_seq4, c19_encrypt_adder_chain);
msg_harnesses!(CoseEncrypt0Builder: c19_encrypt0_setters_seq3, c19x_encrypt0_setters_seq4);
msg_harnesses!(CoseRecipientBuilder: c19_recipient_setters_seq3, c19x_recipient_setters_seq4, c19_recipient_adder_chain);
