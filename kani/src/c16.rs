//! C16 — label ordering is a total order equal to CBOR's deterministic key ordering.
use crate::stubs::*;
use crate::util::*;
use core::cmp::Ordering;
use coset::iana::{self, EnumI64, WithPrivateRange};
use coset::{Label, RegisteredLabel, RegisteredLabelWithPrivate};

/// (a) Int x Int, all 2^128 pairs: `cmp` equals bytewise order of the deterministic encodings,
/// and is consistent with `==`, `partial_cmp` and antisymmetry.
#[kani::proof]
#[kani::stub(alloc::fmt::format, format_stub)]
fn c16_label_int_int() {
    let a: i64 = kani::any();
    let b: i64 = kani::any();
    let (la, lb) = (Label::Int(a), Label::Int(b));
    let c = la.cmp(&lb);
    assert_eq!(c, ref_int_lex(a, b));
    assert_eq!(c == Ordering::Equal, la == lb);
    assert_eq!(la == lb, a == b);
    assert_eq!(la.partial_cmp(&lb), Some(c));
    assert_eq!(lb.cmp(&la), rev(c));
    kani::cover!(c == Ordering::Less && a > b);
    kani::cover!(c == Ordering::Greater && a > b);
    kani::cover!(c == Ordering::Equal);
}

/// (b) transitivity on all 2^192 integer triples.
#[kani::proof]
#[kani::stub(alloc::fmt::format, format_stub)]
fn c16_label_int_transitive() {
    let a: i64 = kani::any();
    let b: i64 = kani::any();
    let c: i64 = kani::any();
    let (la, lb, lc) = (Label::Int(a), Label::Int(b), Label::Int(c));
    if la.cmp(&lb) != Ordering::Greater && lb.cmp(&lc) != Ordering::Greater {
        assert!(la.cmp(&lc) != Ordering::Greater);
    }
    if la.cmp(&lb) == Ordering::Less && lb.cmp(&lc) != Ordering::Greater {
        assert!(la.cmp(&lc) == Ordering::Less);
    }
    kani::cover!(la.cmp(&lb) == Ordering::Less && lb.cmp(&lc) == Ordering::Less && a > 0 && c < 0);
}

/// (c) integers sort before text, whatever their values (major types 0/1 < major type 3).
#[kani::proof]
#[kani::unwind(6)]
#[kani::stub(alloc::fmt::format, format_stub)]
fn c16_label_int_text() {
    let a: i64 = kani::any();
    let tb = any_ascii4();
    let tl: usize = kani::any();
    kani::assume(tl <= 3);
    let li = Label::Int(a);
    let lt = Label::Text(ascii_string(&tb, tl));
    assert_eq!(li.cmp(&lt), Ordering::Less);
    assert_eq!(lt.cmp(&li), Ordering::Greater);
    assert!(li != lt);
    assert_eq!(li.partial_cmp(&lt), Some(Ordering::Less));
    kani::cover!(tl == 0 && a == i64::MIN);
}

/// (d) Text x Text, all ASCII strings of length <= 3: `cmp` = (length, bytes) = bytewise order of
/// `0x60+len || bytes`; consistent with `==`.
#[kani::proof]
#[kani::unwind(6)]
#[kani::stub(alloc::fmt::format, format_stub)]
fn c16_label_text_text() {
    let (ab, bb) = (any_ascii4(), any_ascii4());
    let al: usize = kani::any();
    let bl: usize = kani::any();
    kani::assume(al <= 3 && bl <= 3);
    let la = Label::Text(ascii_string(&ab, al));
    let lb = Label::Text(ascii_string(&bb, bl));
    let c = la.cmp(&lb);
    assert_eq!(c, ref_text_lex(&ab, al, &bb, bl));
    assert_eq!(c == Ordering::Equal, la == lb);
    assert_eq!(la.partial_cmp(&lb), Some(c));
    assert_eq!(lb.cmp(&la), rev(c));
    kani::cover!(c == Ordering::Less && al == 3 && bl == 3);
    kani::cover!(c == Ordering::Greater && al > bl);
    kani::cover!(c == Ordering::Equal && al == 2);
    // bytewise content order and length order disagree here: length must win
    kani::cover!(al < bl && ab[0] > bb[0] && c == Ordering::Less);
}

/// (d') transitivity over mixed int/text triples (texts of length <= 2).
#[kani::proof]
#[kani::unwind(6)]
#[kani::stub(alloc::fmt::format, format_stub)]
fn c16_label_mixed_transitive() {
    fn any_label() -> Label {
        if kani::any() {
            Label::Int(kani::any())
        } else {
            let b = any_ascii4();
            let l: usize = kani::any();
            kani::assume(l <= 2);
            Label::Text(ascii_string(&b, l))
        }
    }
    let (a, b, c) = (any_label(), any_label(), any_label());
    if a.cmp(&b) != Ordering::Greater && b.cmp(&c) != Ordering::Greater {
        assert!(a.cmp(&c) != Ordering::Greater);
    }
    assert_eq!(a.cmp(&b) == Ordering::Equal, a == b);
    kani::cover!(a.cmp(&b) == Ordering::Less && b.cmp(&c) == Ordering::Less);
}

// `cmp_canonical` (which goes through the serialiser) is decided by the mirsym engine: with a
// byte-producing serialiser stub CBMC does not finish (DESIGN.md P-k).

macro_rules! registered_label_order {
    ($name:ident, $t:ty) => {
        /// `RegisteredLabel<T>`: order of assigned values / texts equals the reference order of
        /// their integer / text encodings, and is consistent with `==`.
        #[kani::proof]
        #[kani::unwind(6)]
        #[kani::stub(alloc::fmt::format, format_stub)]
        fn $name() {
            let a: i64 = kani::any();
            let b: i64 = kani::any();
            let (ea, eb) = (<$t>::from_i64(a), <$t>::from_i64(b));
            let tb = any_ascii4();
            let tl: usize = kani::any();
            kani::assume(tl <= 2);
            if let (Some(ea), Some(eb)) = (ea, eb) {
                let (la, lb) = (
                    RegisteredLabel::<$t>::Assigned(ea),
                    RegisteredLabel::<$t>::Assigned(eb),
                );
                let c = la.cmp(&lb);
                assert_eq!(c, ref_int_lex(ea.to_i64(), eb.to_i64()));
                assert_eq!(c == Ordering::Equal, la == lb);
                assert_eq!(la.partial_cmp(&lb), Some(c));
                assert_eq!(lb.cmp(&la), rev(c));
                let lt = RegisteredLabel::<$t>::Text(ascii_string(&tb, tl));
                assert_eq!(la.cmp(&lt), Ordering::Less);
                assert_eq!(lt.cmp(&la), Ordering::Greater);
                assert!(la != lt);
                kani::cover!(c == Ordering::Less);
                kani::cover!(c == Ordering::Greater);
            }
            let ub = any_ascii4();
            let ul: usize = kani::any();
            kani::assume(ul <= 2);
            let (lt, lu) = (
                RegisteredLabel::<$t>::Text(ascii_string(&tb, tl)),
                RegisteredLabel::<$t>::Text(ascii_string(&ub, ul)),
            );
            let c = lt.cmp(&lu);
            assert_eq!(c, ref_text_lex(&tb, tl, &ub, ul));
            assert_eq!(c == Ordering::Equal, lt == lu);
            assert_eq!(lt.partial_cmp(&lu), Some(c));
        }
    };
}
registered_label_order!(c16_reglabel_header_parameter, iana::HeaderParameter);
registered_label_order!(c16_reglabel_key_type, iana::KeyType);
registered_label_order!(c16_reglabel_key_operation, iana::KeyOperation);
registered_label_order!(c16_reglabel_content_format, iana::CoapContentFormat);

macro_rules! private_label_order {
    ($name:ident, $t:ty) => {
        /// `RegisteredLabelWithPrivate<T>` over assigned, private-use (as decoding and builders
        /// produce them: below -65536) and text values.
        #[kani::proof]
        #[kani::unwind(6)]
        #[kani::stub(alloc::fmt::format, format_stub)]
        fn $name() {
            fn any_lab() -> (RegisteredLabelWithPrivate<$t>, Option<i64>, [u8; 4], usize) {
                let i: i64 = kani::any();
                let k: u8 = kani::any();
                if k == 0 {
                    let e = <$t>::from_i64(i);
                    kani::assume(e.is_some());
                    (RegisteredLabelWithPrivate::Assigned(e.unwrap()), Some(i), [0; 4], 0)
                } else if k == 1 {
                    kani::assume(i < -65536);
                    (RegisteredLabelWithPrivate::PrivateUse(i), Some(i), [0; 4], 0)
                } else {
                    let tb = any_ascii4();
                    let tl: usize = kani::any();
                    kani::assume(tl <= 2);
                    (RegisteredLabelWithPrivate::Text(ascii_string(&tb, tl)), None, tb, tl)
                }
            }
            let (la, ia, ta, tla) = any_lab();
            let (lb, ib, tb, tlb) = any_lab();
            let want = match (ia, ib) {
                (Some(x), Some(y)) => ref_int_lex(x, y),
                (Some(_), None) => Ordering::Less,
                (None, Some(_)) => Ordering::Greater,
                (None, None) => ref_text_lex(&ta, tla, &tb, tlb),
            };
            let c = la.cmp(&lb);
            assert_eq!(c, want);
            assert_eq!(c == Ordering::Equal, la == lb);
            assert_eq!(la.partial_cmp(&lb), Some(c));
            assert_eq!(lb.cmp(&la), rev(c));
            kani::cover!(c == Ordering::Less && ia.is_some() && ib.is_some());
            kani::cover!(c == Ordering::Greater && ia.is_none() && ib.is_none());
            kani::cover!(c == Ordering::Equal);
        }
    };
}
private_label_order!(c16_privlabel_algorithm, iana::Algorithm);
private_label_order!(c16_privlabel_cwt_claim, iana::CwtClaimName);

/// (d'') Text x Text with multi-byte UTF-8 contents: strings of <= 2 characters, each drawn from a
/// palette of 1-, 2-, 3- and 4-byte characters.  The order must be that of the encodings, i.e.
/// (UTF-8 byte length, bytes) -- not (number of characters, ...).
fn palette_string(k: u8, n: u8) -> alloc::string::String {
    let c = |i: u8| match i & 3 {
        0 => "a",
        1 => "\u{e9}",
        2 => "\u{20ac}",
        _ => "\u{1f600}",
    };
    let mut s = alloc::string::String::new();
    if n >= 1 {
        s.push_str(c(k));
    }
    if n >= 2 {
        s.push_str(c(k >> 2));
    }
    s
}

fn ref_bytes_order(a: &[u8], b: &[u8]) -> Ordering {
    if a.len() != b.len() {
        return if a.len() < b.len() { Ordering::Less } else { Ordering::Greater };
    }
    let mut i = 0;
    while i < a.len() {
        if a[i] != b[i] {
            return if a[i] < b[i] { Ordering::Less } else { Ordering::Greater };
        }
        i += 1;
    }
    Ordering::Equal
}

macro_rules! multibyte_order {
    ($name:ident, $mk:expr) => {
        #[kani::proof]
        #[kani::unwind(10)]
        #[kani::stub(alloc::fmt::format, format_stub)]
        fn $name() {
            let (ka, kb): (u8, u8) = (kani::any(), kani::any());
            let (na, nb): (u8, u8) = (kani::any(), kani::any());
            kani::assume(na <= 2 && nb <= 2 && ka < 16 && kb < 16);
            let (sa, sb) = (palette_string(ka, na), palette_string(kb, nb));
            let want = ref_bytes_order(sa.as_bytes(), sb.as_bytes());
            let mk = $mk;
            let (la, lb) = (mk(sa), mk(sb));
            let c = la.cmp(&lb);
            assert_eq!(c, want);
            assert_eq!(c == Ordering::Equal, la == lb);
            // one 3-byte character against two 1-byte characters: bytes decide, not characters
            kani::cover!(na == 1 && nb == 2 && c == Ordering::Greater);
            kani::cover!(na == 2 && nb == 2 && c == Ordering::Less);
        }
    };
}
multibyte_order!(c16_label_text_multibyte, |s: alloc::string::String| Label::Text(s));
multibyte_order!(c16_reglabel_text_multibyte, |s: alloc::string::String| RegisteredLabel::<iana::KeyType>::Text(s));
multibyte_order!(c16_privlabel_text_multibyte, |s: alloc::string::String| RegisteredLabelWithPrivate::<iana::Algorithm>::Text(s));
