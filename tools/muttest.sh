#!/bin/bash
# muttest.sh <patch> <script.py> [args]: apply patch to /tmp/wt-dev, dump MIR into /tmp/mirprobe-mut, run script, revert
set -e
P=$1; shift
git -C /tmp/wt-dev checkout -q -- . ; git -C /tmp/wt-dev apply $P
python3-vt - <<PY
import sys; sys.path.insert(0,'/verif/mirsym')
import loader; print(loader.dump_mir('/tmp/wt-dev','/tmp/mirprobe-mut'))
PY
sed -i 's|/tmp/mirprobe3/|/tmp/mirprobe-mut/|' $1 ; python3-vt "$@" || true; sed -i 's|/tmp/mirprobe-mut/|/tmp/mirprobe3/|' $1
git -C /tmp/wt-dev checkout -q -- .
