import sys, time
sys.path.insert(0, '/verif/mirsym'); sys.path.insert(0, '/verif/lib')
import loader, jobs_encode, refdec
eng = loader.load_engine("/tmp/mirprobe3/coset-nostd.mir", sys.argv[1]); tables = refdec.load_tables()
t=time.time()
job = jobs_encode.encode_job(eng, tables, sys.argv[4], sys.argv[2], int(sys.argv[3]), time.time()+900, dups_in_scope=(sys.argv[4]=="C12"))
print("paths", job.paths, "acc", job.accepting, "incomplete", job.incomplete, "t=%.1f"%(time.time()-t))
print(job.extra)
for f in job.findings: print(f["key"], f["what"], f["command"][:200])
