import sys, time
sys.path.insert(0, '/verif/mirsym'); sys.path.insert(0, '/verif/lib')
import loader, jobs_misc, refdec
eng = loader.load_engine("/tmp/mirprobe3/coset-nostd.mir", sys.argv[1]); tables = refdec.load_tables()
t=time.time()
job = jobs_misc.canonicalize_job(eng, tables, "C20", 2, time.time()+900, long_text=[9,10])
print("paths", job.paths, "acc", job.accepting, "rej", job.rejecting, "incomplete", job.incomplete[:3], "t=%.1f"%(time.time()-t))
print(job.extra)
for f in job.findings[:4]: print(f["key"], f["what"], f["command"][:300])
