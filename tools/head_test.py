import sys, time
sys.path.insert(0, '/verif/mirsym'); sys.path.insert(0, '/verif/lib')
import loader, jobs_misc, refdec
eng = loader.load_engine("/tmp/mirprobe3/coset-nostd.mir", sys.argv[1]); tables = refdec.load_tables()
t=time.time()
pol = dict(max_array=4, max_nested_array=2, max_map=0, max_text=1, max_depth=3, max_total_entries=0, max_total_items=5)
job = jobs_misc.head_job(eng, tables, "C14", sys.argv[2], pol, time.time()+900)
print("paths", job.paths, "acc", job.accepting, "rej", job.rejecting, "incomplete", job.incomplete[:3], "t=%.1f"%(time.time()-t))
print(job.extra)
for f in job.findings[:6]: print(f["key"], f["what"], f["commands"][:2])
