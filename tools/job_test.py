import sys, time, importlib
sys.path.insert(0, '/verif/mirsym'); sys.path.insert(0, '/verif/lib')
import loader, refdec, joblists
eng = loader.load_engine("/tmp/mirprobe3/coset-nostd.mir", sys.argv[1]); tables = refdec.load_tables()
prop, filt, cap = sys.argv[2], sys.argv[3], int(sys.argv[4])
for m, f, kw in getattr(joblists, prop.lower())(sys.argv[5] if len(sys.argv) > 5 else "quick"):
    desc = "%s.%s %s%s" % (m, f, kw.get("tname", ""), kw.get("tag", ""))
    if filt not in desc: continue
    t = time.time()
    job = getattr(importlib.import_module(m), f)(eng, tables, deadline=time.time()+cap, **kw)
    print(desc, "paths", job.paths, "acc", job.accepting, "rej", job.rejecting, "incomplete", job.incomplete[:2], "t=%.1f" % (time.time()-t))
    print("  ", job.extra.get("finding_counts"))
    for x in job.findings[:3]: print("  ", x["key"], x["what"][:200], x.get("command", "")[:160])
