"""Encode-side and round-trip jobs (C02, C07, C11, C12-encode, C13, C16 canonical order, C20)."""
import z3

import concrete
import hcommon
import models
import refdec
import refenc
from hcommon import JobResult
from interp import Panic, Unsupported
from lazy import Policy
from values import (UNIT, Adt, Arr, BoxV, Cell, Lazy, Ref, Sc, SetV, Tup, VecV, bv, deep_clone, is_sym)


def strip_original(impls, v):
    """`builder.protected(h)` equivalent: every ProtectedHeader loses its retained wire bytes."""
    if isinstance(v, Adt):
        if v.ty == "ProtectedHeader":
            order = impls.struct_fields("ProtectedHeader")
            f = list(v.fields)
            f[order.index("original_data")] = Adt("Option", "None", [])
            f[order.index("header")] = strip_original(impls, f[order.index("header")])
            return Adt(v.ty, None, f)
        return Adt(v.ty, v.variant, [strip_original(impls, x) for x in v.fields])
    if isinstance(v, Tup):
        return Tup([strip_original(impls, x) for x in v.fields])
    if isinstance(v, VecV) and v.elems is not None:
        return VecV([strip_original(impls, x) for x in v.elems], v.opaque, v.kind)
    if isinstance(v, SetV):
        return SetV([strip_original(impls, x) for x in v.elems])
    return v


def written_registry(ctx, model):
    """Concrete bytes for every byte string the serialiser stub produced on this path."""
    reg = {}
    for ident, tree in ctx.side.get("writer_calls", []):
        try:
            reg[ident] = concrete.encode(concrete.value_to_tree(model, tree, reg))
        except Exception:
            pass
    return reg


def _finding(job, seen, ctx, eng, prop, tname, cls, what, node, op, predicted=None, extra=None):
    key = "%s:%s:%s" % (prop, tname, cls)
    seen[key] = seen.get(key, 0) + 1
    if seen[key] > 2:
        return
    m = ctx.model()
    if m is None:
        return
    reg = {}
    tree = concrete.node_to_tree(m, node, reg) if node is not None else None
    rec = {"property": prop, "key": key, "what": "%s: %s" % (tname, what), "op": op, "type": tname,
           "input_hex": concrete.encode(tree).hex() if tree is not None else "", "predicted": predicted,
           "decisions": [list(d) for d in ctx.trace][:60]}
    if extra:
        rec.update(extra)
    job.findings.append(rec)


def roundtrip_job(eng, tables, prop, tname, policy, deadline, max_paths=None, initial=None, bfs=False,
                  slice_s=None, tag="", built=False):
    """decode -> encode -> decode -> encode on every accepting leaf.
       built=False: the value as decoded (protected headers keep their wire bytes);
       built=True : the same value with all retained bytes dropped (what builders produce)."""
    if isinstance(policy, dict):
        policy = Policy(**policy)
    method, path = refdec.DECODERS[tname]
    enc_method = refenc.ENCODERS[tname]
    job = JobResult("roundtrip:%s%s%s" % (tname, ":built" if built else "", tag))
    dec = "<%s as AsCborValue>::from_cbor_value" % path
    enc = "<%s as AsCborValue>::to_cbor_value" % path
    seen = {}

    def harness(ctx):
        v = ctx.lazy_value("v", policy)
        r = ctx.call(dec, [v])
        if r.variant != "Ok":
            return "rejected"
        x = r.fields[0]
        if built:
            x = strip_original(eng.impls, x)
        keep = deep_clone(x)
        out = {"node": v.node, "problems": []}
        # (i) the decoded value must encode
        r1 = ctx.call(enc, [x])
        ref = refenc.RefEnc(ctx, eng.impls)
        try:
            expected = getattr(ref, enc_method)(keep)
            fault = None
        except refenc.EncodeFault as f:
            expected, fault = None, f.kind
        if r1.variant != "Ok":
            if fault is None:
                out["problems"].append(("encode-fails", "a decoded value does not encode (%s)" % r1.fields[0].variant))
            return out
        v1 = r1.fields[0]
        if fault is not None:
            out["problems"].append(("encode-emits-duplicate", "encoding succeeded although two map keys denote the same label"))
            return out
        written = ctx.side.get("written", {})
        eq = refenc.value_eq(ctx, v1, expected, written)
        if eq is False or (eq is not True and ctx.check(z3.Not(eq))):
            if eq is not False:
                ctx.assume(z3.Not(eq))
            out["problems"].append(("encode-shape", "the encoded item is not the structure the CDDL prescribes for this value"))
            out["v1"] = v1
            return out
        # (ii) decoding the output gives the value back
        r2 = ctx.call(dec, [deep_clone(v1)])
        if r2.variant != "Ok":
            out["problems"].append(("redecode-fails", "the encoding of a decoded value is rejected (%s)" % r2.fields[0].variant))
            return out
        x2 = r2.fields[0]
        want = keep
        if built:
            # protected headers now carry the byte strings that encoding assigned them
            want = None
        if want is not None:
            eq2 = hcommon.spec_eq(ctx, x2, want)
            if eq2 is False or (eq2 is not True and ctx.check(z3.Not(eq2))):
                if eq2 is not False:
                    ctx.assume(z3.Not(eq2))
                out["problems"].append(("redecode-differs", "decode(encode(v)) != v"))
                return out
        else:
            eq2 = hcommon.spec_eq(ctx, strip_original(eng.impls, x2), keep)
            if eq2 is False or (eq2 is not True and ctx.check(z3.Not(eq2))):
                if eq2 is not False:
                    ctx.assume(z3.Not(eq2))
                out["problems"].append(("redecode-differs", "decode(encode(v)) differs from v beyond the retained bytes"))
                return out
        # (iii) fixed point
        r3 = ctx.call(enc, [x2])
        if r3.variant != "Ok":
            out["problems"].append(("reencode-fails", "second encoding fails"))
            return out
        eq3 = hcommon.spec_eq(ctx, r3.fields[0], v1)
        if eq3 is False or (eq3 is not True and ctx.check(z3.Not(eq3))):
            if eq3 is not False:
                ctx.assume(z3.Not(eq3))
            if not built:
                out["problems"].append(("not-fixed-point", "encode(decode(encode(v))) != encode(v)"))
        return out

    def on_leaf(ctx, out):
        node = ctx.inputs.get("v")
        if out[0] == "panic":
            _finding(job, seen, ctx, eng, prop, tname, "panic:" + out[1].kind, "panics: %s" % out[1], node,
                     "roundtrip", "PANIC")
            return
        if out[0] != "ok":
            return
        o = out[1]
        if o == "rejected":
            job.rejecting += 1
            return
        job.accepting += 1
        for cls, what in o["problems"]:
            pred = {"encode-fails": "ENCERR", "redecode-fails": "REDECERR", "reencode-fails": "REENCERR",
                    "redecode-differs": "OK eq=false", "not-fixed-point": "OK eq=true fixed=false",
                    "encode-emits-duplicate": "OK", "encode-shape": "OK"}[cls]
            extra = {"compare": "startswith"}
            if cls == "encode-shape" and "v1" in o:
                m = ctx.model()
                if m is not None:
                    reg = {}
                    concrete.node_to_tree(m, node, reg)
                    reg.update(written_registry(ctx, m))
                    try:
                        pred = "OK " + concrete.encode(concrete.value_to_tree(m, o["v1"], reg)).hex()
                        extra = {"op_override": "encode"}
                    except Exception:
                        pass
            op = extra.get("op_override", "roundtrip")
            if built:
                op = "ops %s_built" % op
            _finding(job, seen, ctx, eng, prop, tname, cls, what, node, op, pred, extra)
        if len(job.samples) < 2:
            m = ctx.model()
            if m is not None:
                job.samples.append({"type": tname, "roundtrip_of": concrete.encode(
                    concrete.node_to_tree(m, node, {})).hex()})

    hcommon.run_paths(eng, job, harness, deadline, max_paths, on_leaf, initial=initial, bfs=bfs, slice_s=slice_s)
    job.extra["finding_counts"] = seen
    return job


# ------------------------------------------------------------------------------- generators

def gen_label(ctx, name, text_max=1):
    """Arbitrary Label: any i64 or a short ASCII text."""
    if ctx.choose(2, "label-kind@" + name) == 0:
        return Adt("Label", "Int", [Sc("i64", ctx.fresh_bv(name + ".int", 64))])
    return Adt("Label", "Text", [ctx.fresh_bytes(name + ".text", "concrete", text_max, "string")])


def gen_claim_name(ctx, tables, name):
    k = ctx.choose(3, "claim-kind@" + name)
    if k == 0:
        i = ctx.fresh_bv(name + ".assigned", 64)
        nums = sorted(tables["CwtClaimName"]["rows"].values())
        ctx.assume(z3.Or([i == z3.BitVecVal(n, 64) for n in nums]))
        return Adt("RegisteredLabelWithPrivate", "Assigned", [Sc("isize", i, enum="CwtClaimName")])
    if k == 1:
        i = ctx.fresh_bv(name + ".private", 64)
        ctx.assume(i < z3.BitVecVal(-65536, 64))
        return Adt("RegisteredLabelWithPrivate", "PrivateUse", [Sc("i64", i)])
    return Adt("RegisteredLabelWithPrivate", "Text", [ctx.fresh_bytes(name + ".text", "concrete", 1, "string")])


def opt(ctx, name, mk):
    if ctx.choose(2, "present@" + name) == 0:
        return Adt("Option", "None", [])
    return Adt("Option", "Some", [mk()])


def small_bytes(ctx, name):
    """empty or opaque non-empty"""
    if ctx.choose(2, "empty@" + name) == 0:
        return VecV([], None, "vec")
    return ctx.fresh_opaque(name, "vec", nonempty=True)


def mk_struct(impls, ty, **fields):
    order = impls.struct_fields(ty)
    if set(order) != set(fields):
        raise Unsupported("generator for %s has fields %s but the source declares %s" % (ty, sorted(fields), order))
    return Adt(ty, None, [fields[n] for n in order])


def gen_header(ctx, eng, tables, n_rest, name="h", with_sigs=False):
    alg = opt(ctx, name + ".alg", lambda: Adt("RegisteredLabelWithPrivate", "Assigned",
                                               [Sc("isize", -7, enum="Algorithm")]))
    crit = VecV([Adt("RegisteredLabel", "Assigned", [Sc("isize", 1, enum="HeaderParameter")])]
                if ctx.choose(2, "crit@" + name) else [], None, "vec")
    ct = opt(ctx, name + ".ct", lambda: Adt("RegisteredLabel", "Assigned", [Sc("isize", 60, enum="CoapContentFormat")]))
    kid, iv, piv = (small_bytes(ctx, name + "." + f) for f in ("kid", "iv", "piv"))
    sigs = []
    if with_sigs == "plain":
        # 0..2 counter-signatures, each all-default (empty headers, empty signature)
        def empty_header():
            return mk_struct(eng.impls, "Header", alg=Adt("Option", "None", []), crit=VecV([], None, "vec"),
                             content_type=Adt("Option", "None", []), key_id=VecV([], None, "vec"), iv=VecV([], None, "vec"),
                             partial_iv=VecV([], None, "vec"), counter_signatures=VecV([], None, "vec"), rest=VecV([], None, "vec"))
        for j in range(ctx.choose(3, "nsigs@" + name)):
            sigs.append(mk_struct(eng.impls, "CoseSignature",
                                  protected=mk_struct(eng.impls, "ProtectedHeader", original_data=Adt("Option", "None", []),
                                                      header=empty_header()),
                                  unprotected=empty_header(), signature=VecV([], None, "vec")))
    elif with_sigs:
        for j in range(ctx.choose(3, "nsigs@" + name)):
            sigs.append(mk_struct(eng.impls, "CoseSignature",
                                  protected=mk_struct(eng.impls, "ProtectedHeader", original_data=Adt("Option", "None", []),
                                                      header=gen_header(ctx, eng, tables, 0, "%s.cs%d" % (name, j))),
                                  unprotected=gen_header(ctx, eng, tables, 0, "%s.cu%d" % (name, j)),
                                  signature=small_bytes(ctx, "%s.cs%d.sig" % (name, j))))
    rest = [Tup([gen_label(ctx, "%s.rest%d" % (name, i)), Adt("Value", "Null", [])]) for i in range(n_rest)]
    return mk_struct(eng.impls, "Header", alg=alg, crit=crit, content_type=ct, key_id=kid, iv=iv, partial_iv=piv,
                     counter_signatures=VecV(sigs, None, "vec"), rest=VecV(rest, None, "vec"))


def gen_key(ctx, eng, tables, n_params, name="k", text_max=1):
    kty = Adt("RegisteredLabel", "Assigned", [Sc("isize", 2, enum="KeyType")])
    alg = opt(ctx, name + ".alg", lambda: Adt("RegisteredLabelWithPrivate", "Assigned", [Sc("isize", -7, enum="Algorithm")]))
    ops = SetV([Adt("RegisteredLabel", "Assigned", [Sc("isize", 1, enum="KeyOperation")])]
               if ctx.choose(2, "ops@" + name) else [])
    params = [Tup([gen_label(ctx, "%s.p%d" % (name, i), text_max), Adt("Value", "Null", [])]) for i in range(n_params)]
    return mk_struct(eng.impls, "CoseKey", kty=kty, key_id=small_bytes(ctx, name + ".kid"), alg=alg, key_ops=ops,
                     base_iv=small_bytes(ctx, name + ".biv"), params=VecV(params, None, "vec"))


def gen_claims(ctx, eng, tables, n_rest, name="c"):
    none = lambda: Adt("Option", "None", [])
    txt = lambda n: opt(ctx, name + "." + n, lambda: ctx.fresh_opaque(name + "." + n, "string"))
    ts = lambda n: opt(ctx, name + "." + n, lambda: Adt("Timestamp", "WholeSeconds", [Sc("i64", ctx.fresh_bv(name + "." + n, 64))]))
    rest = [Tup([gen_claim_name(ctx, tables, "%s.rest%d" % (name, i)), Adt("Value", "Null", [])]) for i in range(n_rest)]
    return mk_struct(eng.impls, "ClaimsSet", issuer=txt("iss"), subject=none(), audience=none(),
                     expiration_time=ts("exp"), not_before=none(), issued_at=none(),
                     cwt_id=opt(ctx, name + ".cti", lambda: ctx.fresh_opaque(name + ".cti", "vec")),
                     rest=VecV(rest, None, "vec"))


GENERATORS = {"Header": gen_header, "CoseKey": gen_key, "ClaimsSet": gen_claims}
PATHS = {"Header": "header::Header", "CoseKey": "key::CoseKey", "ClaimsSet": "cwt::ClaimsSet"}


def encode_job(eng, tables, prop, tname, n_extra, deadline, max_paths=None, initial=None, bfs=False,
               slice_s=None, tag="", dups_in_scope=True):
    """In-memory values with arbitrary extra labels (built from struct literals): encoding yields
    the reference map, or fails with DuplicateMapKey exactly when two keys denote the same label."""
    job = JobResult("encode:%s%s" % (tname, tag))
    enc = "<%s as AsCborValue>::to_cbor_value" % PATHS[tname]
    seen = {}

    def harness(ctx):
        x = GENERATORS[tname](ctx, eng, tables, n_extra, **({"with_sigs": "plain"} if tname == "Header" else {}))
        keep = deep_clone(x)
        ctx.side["gen"] = keep
        r = ctx.call(enc, [x])
        ref = refenc.RefEnc(ctx, eng.impls)
        try:
            expected = getattr(ref, refenc.ENCODERS[tname])(keep)
            fault = None
        except refenc.EncodeFault as f:
            expected, fault = None, f.kind
        if fault is not None and not dups_in_scope:
            return ("ok-dup", None, r)          # not a well-formed value: outside this property
        if fault is not None:
            if r.variant == "Ok":
                return ("encode-emits-duplicate", "encoding succeeded although two map keys denote the same label", r)
            if r.fields[0].variant != "DuplicateMapKey":
                return ("dup-wrong-error", "duplicate labels rejected with %s" % r.fields[0].variant, r)
            return ("ok-dup", None, r)
        if r.variant != "Ok":
            return ("encode-fails", "a well-formed value does not encode (%s)" % r.fields[0].variant, r)
        eq = refenc.value_eq(ctx, r.fields[0], expected, ctx.side.get("written", {}))
        if eq is False or (eq is not True and ctx.check(z3.Not(eq))):
            if eq is not False:
                ctx.assume(z3.Not(eq))
            return ("encode-shape", "the encoded map is not the one the CDDL prescribes for this value", r)
        return ("ok", None, r)

    def on_leaf(ctx, out):
        if out[0] == "panic":
            cls, what, r = "panic:" + out[1].kind, "encoding panics: %s" % out[1], None
        elif out[0] == "ok":
            cls, what, r = out[1]
            if cls in ("ok", "ok-dup"):
                if cls == "ok":
                    job.accepting += 1
                else:
                    job.rejecting += 1
                return
        else:
            return
        key = "%s:%s:%s" % (prop, tname, cls)
        seen[key] = seen.get(key, 0) + 1
        if seen[key] > 2:
            return
        m = ctx.model()
        if m is None:
            return
        reg = {}
        spec = literal_spec(m, tname, ctx.side["gen"], eng.impls, reg)
        reg.update(written_registry(ctx, m))
        val_dbg = concrete.DebugFmt(eng.impls, m, reg).fmt(ctx.side["gen"])
        pred = "PANIC" if r is None else (("OK " + concrete.encode(concrete.value_to_tree(m, r.fields[0], reg)).hex())
                                          if r.variant == "Ok" else "ERR " + r.fields[0].variant)
        job.findings.append({"property": prop, "key": key, "what": "%s: %s" % (tname, what), "op": "ops",
                             "type": tname, "input_hex": "", "predicted": pred,
                             "command": "ops encode_literal %s %s" % (tname, spec),
                             "value_debug": val_dbg})

    hcommon.run_paths(eng, job, harness, deadline, max_paths, on_leaf, initial=initial, bfs=bfs, slice_s=slice_s)
    job.extra["finding_counts"] = seen
    return job


def literal_spec(model, tname, v, impls, reg):
    """Compact description of a generated value for the native replayer:
       <flags: name[=hex|int],...> <labels: i<int>|t<hex>|a<int>|p<int>,...>"""
    def fld(a, n):
        return a.fields[impls.struct_fields(a.ty).index(n)]

    def lab(l):
        if l.variant == "Text":
            return "t" + concrete.seq_to_bytes(model, l.fields[0], registry=reg).hex()
        x = l.fields[0]
        n = concrete._ev(model, x.v) if is_sym(x.v) else int(x.v)
        n = concrete.signed(n, 64)
        return ("a" if l.variant == "Assigned" else ("p" if l.variant == "PrivateUse" else "i")) + str(n)

    def hx(b):
        return concrete.seq_to_bytes(model, b, registry=reg).hex()
    flags = []
    if tname == "Header":
        for n, f in (("alg", "alg"), ("ct", "content_type")):
            if fld(v, f).variant == "Some":
                flags.append(n)
        if fld(v, "crit").elems:
            flags.append("crit")
        if fld(v, "counter_signatures").elems:
            flags.append("sigs=%d" % len(fld(v, "counter_signatures").elems))
        for n, f in (("kid", "key_id"), ("iv", "iv"), ("piv", "partial_iv")):
            if hx(fld(v, f)):
                flags.append("%s=%s" % (n, hx(fld(v, f))))
        labels = [lab(t.fields[0]) for t in fld(v, "rest").elems]
    elif tname == "CoseKey":
        if fld(v, "alg").variant == "Some":
            flags.append("alg")
        if fld(v, "key_ops").elems:
            flags.append("ops")
        for n, f in (("kid", "key_id"), ("biv", "base_iv")):
            if hx(fld(v, f)):
                flags.append("%s=%s" % (n, hx(fld(v, f))))
        labels = [lab(t.fields[0]) for t in fld(v, "params").elems]
    else:
        o = fld(v, "issuer")
        if o.variant == "Some":
            flags.append("iss=" + hx(o.fields[0]))
        o = fld(v, "expiration_time")
        if o.variant == "Some":
            x = o.fields[0].fields[0]
            flags.append("exp=%d" % concrete.signed(concrete._ev(model, x.v) if is_sym(x.v) else int(x.v), 64))
        o = fld(v, "cwt_id")
        if o.variant == "Some":
            flags.append("cti=" + hx(o.fields[0]))
        labels = [lab(t.fields[0]) for t in fld(v, "rest").elems]
    return "%s %s" % (",".join(flags) or "-", ",".join(labels) or "-")
