"""Concrete side of the engine: CBOR codec for concrete trees, conversion between trees and
interpreter values, concretisation of lazy inputs from a z3 model, Rust-`Debug`-style printing of
interpreter values (for comparison with the native replayer)."""
import re
import struct

import z3

from lazy import KINDS
from values import (UNIT, Adt, Arr, BoxV, Cell, FnV, Lazy, Ref, Sc, SetV, Tup, VecV, is_sym)

# concrete tree: ('int', n) ('bytes', b) ('text', s) ('float', bits) ('bool', b) ('null',)
#                ('tag', n, t) ('array', [t]) ('map', [(k, v)])


# ------------------------------------------------------------------------------- CBOR codec

def head(mt, n):
    if n < 24:
        return bytes([mt << 5 | n])
    if n <= 0xFF:
        return bytes([mt << 5 | 24, n])
    if n <= 0xFFFF:
        return bytes([mt << 5 | 25]) + n.to_bytes(2, "big")
    if n <= 0xFFFFFFFF:
        return bytes([mt << 5 | 26]) + n.to_bytes(4, "big")
    return bytes([mt << 5 | 27]) + n.to_bytes(8, "big")


def encode(t):
    """Reference deterministic encoder (RFC 8949 4.2.1 heads; floats always as f64)."""
    k = t[0]
    if k == "int":
        n = t[1]
        return head(0, n) if n >= 0 else head(1, -1 - n)
    if k == "bytes":
        return head(2, len(t[1])) + bytes(t[1])
    if k == "text":
        b = t[1].encode("utf-8") if isinstance(t[1], str) else bytes(t[1])
        return head(3, len(b)) + b
    if k == "array":
        return head(4, len(t[1])) + b"".join(encode(x) for x in t[1])
    if k == "map":
        return head(5, len(t[1])) + b"".join(encode(a) + encode(b) for a, b in t[1])
    if k == "tag":
        return head(6, t[1]) + encode(t[2])
    if k == "bool":
        return b"\xf5" if t[1] else b"\xf4"
    if k == "null":
        return b"\xf6"
    if k == "float":
        return b"\xfb" + int(t[1]).to_bytes(8, "big")
    raise ValueError(t)


class DecodeError(Exception):
    pass


def decode(b, pos=0):
    """Minimal CBOR reader for test vectors -> (tree, next position)."""
    if pos >= len(b):
        raise DecodeError("eof")
    ib = b[pos]
    mt, ai = ib >> 5, ib & 31
    pos += 1
    indef = False
    if ai < 24:
        n = ai
    elif ai in (24, 25, 26, 27):
        w = 1 << (ai - 24)
        if pos + w > len(b):
            raise DecodeError("eof")
        n = int.from_bytes(b[pos:pos + w], "big")
        pos += w
    elif ai == 31 and mt in (2, 3, 4, 5):
        indef, n = True, None
    else:
        raise DecodeError("bad additional info")
    if mt == 0:
        return ("int", n), pos
    if mt == 1:
        return ("int", -1 - n), pos
    if mt in (2, 3):
        if indef:
            out = b""
            while True:
                if pos >= len(b):
                    raise DecodeError("eof")
                if b[pos] == 0xFF:
                    pos += 1
                    break
                (kk, chunk), pos = decode(b, pos)
                out += chunk if kk == "bytes" else chunk.encode()
        else:
            if pos + n > len(b):
                raise DecodeError("eof")
            out, pos = b[pos:pos + n], pos + n
        if mt == 2:
            return ("bytes", bytes(out)), pos
        return ("text", bytes(out).decode("utf-8")), pos
    if mt == 4:
        items = []
        while (indef or len(items) < n):
            if indef and pos < len(b) and b[pos] == 0xFF:
                pos += 1
                break
            x, pos = decode(b, pos)
            items.append(x)
        return ("array", items), pos
    if mt == 5:
        items = []
        while (indef or len(items) < n):
            if indef and pos < len(b) and b[pos] == 0xFF:
                pos += 1
                break
            k, pos = decode(b, pos)
            v, pos = decode(b, pos)
            items.append((k, v))
        return ("map", items), pos
    if mt == 6:
        x, pos = decode(b, pos)
        if n in (2, 3) and x[0] == "bytes":
            v = int.from_bytes(x[1], "big")
            return ("int", v if n == 2 else -1 - v), pos
        return ("tag", n, x), pos
    if ai == 20:
        return ("bool", False), pos
    if ai == 21:
        return ("bool", True), pos
    if ai == 22:
        return ("null",), pos
    if ai == 25:
        h = struct.unpack(">e", n.to_bytes(2, "big"))[0]
        return ("float", struct.unpack(">Q", struct.pack(">d", h))[0]), pos
    if ai == 26:
        f = struct.unpack(">f", n.to_bytes(4, "big"))[0]
        return ("float", struct.unpack(">Q", struct.pack(">d", f))[0]), pos
    if ai == 27:
        return ("float", n), pos
    raise DecodeError("simple value")


def decode_all(b):
    t, pos = decode(b, 0)
    if pos != len(b):
        raise DecodeError("trailing")
    return t


# ------------------------------------------------------------------------------- tree <-> values

def tree_to_value(t):
    """Concrete tree -> non-lazy interpreter `ciborium::Value`."""
    k = t[0]
    if k == "int":
        return Adt("Value", "Integer", [Adt("Integer", None, [Sc("i128", t[1])])])
    if k == "bytes":
        return Adt("Value", "Bytes", [VecV([Sc("u8", x) for x in t[1]], None, "vec")])
    if k == "text":
        b = t[1].encode("utf-8") if isinstance(t[1], str) else bytes(t[1])
        return Adt("Value", "Text", [VecV([Sc("u8", x) for x in b], None, "string")])
    if k == "float":
        return Adt("Value", "Float", [Sc("f64", t[1])])
    if k == "bool":
        return Adt("Value", "Bool", [Sc("bool", bool(t[1]))])
    if k == "null":
        return Adt("Value", "Null", [])
    if k == "tag":
        return Adt("Value", "Tag", [Sc("u64", t[1]), BoxV(Cell(tree_to_value(t[2])))])
    if k == "array":
        return Adt("Value", "Array", [VecV([tree_to_value(x) for x in t[1]], None, "vec")])
    if k == "map":
        return Adt("Value", "Map", [VecV([Tup([tree_to_value(a), tree_to_value(b)]) for a, b in t[1]], None, "vec")])
    raise ValueError(t)


def _ev(model, term, default=0):
    if not is_sym(term):
        return term
    v = model.eval(term, model_completion=True)
    if z3.is_bv_value(v):
        return v.as_long()
    if z3.is_true(v):
        return True
    if z3.is_false(v):
        return False
    return default


def seq_to_bytes(model, v, cap=70000, registry=None):
    """Concrete bytes for a (possibly opaque) byte string under a model.  Opaque strings get
    distinct filler content (so that different identities stay different) of the model's length,
    capped at `cap`; `registry` maps opaque identities to bytes already chosen."""
    if v.elems is not None:
        out = b""
        for x in v.elems:
            if isinstance(x, Sc):
                out += bytes([_ev(model, x.v) & 0xFF])
            else:                       # opaque segment of a concatenation
                from values import VecV as _V
                out += seq_to_bytes(model, _V(None, x, "vec"), cap, registry)
        return out
    ident = v.opaque.ident
    if registry is not None and ident in registry:
        return registry[ident]
    n = _ev(model, v.opaque.len)
    n = min(n, cap)
    seed = sum(ord(c) for c in str(ident)) & 0xFF
    out = bytes(((seed + 17 * i) & 0x7F) | 0x01 for i in range(n))
    if registry is not None:
        registry[ident] = out
    return out


def signed(n, bits):
    n &= (1 << bits) - 1
    return n - (1 << bits) if n >= 1 << (bits - 1) else n


def node_to_tree(model, node, registry=None, fill=("null",)):
    """Concretise a lazy input node under a z3 model; undecided positions become `fill`."""
    k = node.kind
    if k is None:
        return fill
    if k == "Integer":
        return ("int", signed(_ev(model, node.int), 128))
    if k == "Bytes":
        if node.parsed is not None and node.parse_outcome and node.parse_outcome[0] == "ok" and registry is not None:
            # the code parsed these bytes: give them the encoding of what the parser stub returned
            inner = node_to_tree(model, node.parsed, registry, fill=("map", []))
            enc = encode(inner)
            if not node.parse_outcome[2]:
                enc += b"\x00"          # trailing garbage: parser did not consume everything
            if node.bytes.opaque is not None:
                registry[node.bytes.opaque.ident] = enc
            return ("bytes", enc)
        return ("bytes", seq_to_bytes(model, node.bytes, registry=registry))
    if k == "Text":
        return ("text", seq_to_bytes(model, node.text, registry=registry))      # UTF-8 bytes, kept as bytes
    if k == "Float":
        return ("float", _ev(model, node.float))
    if k == "Bool":
        return ("bool", bool(_ev(model, node.bool)))
    if k == "Null":
        return ("null",)
    if k == "Tag":
        return ("tag", _ev(model, node.tag), node_to_tree(model, node.child, registry, fill))
    if k == "Array":
        return ("array", [node_to_tree(model, n, registry, fill) for n in node.items])
    if k == "Map":
        return ("map", [(node_to_tree(model, a, registry, fill), node_to_tree(model, b, registry, fill))
                        for a, b in node.entries])
    raise ValueError(k)


def value_to_tree(model, v, registry=None):
    """Interpreter `ciborium::Value` (possibly with lazy children) -> concrete tree."""
    while isinstance(v, Ref):
        v = v.get()
    if isinstance(v, Lazy):
        return node_to_tree(model, v.node, registry)
    if isinstance(v, BoxV):
        return value_to_tree(model, v.cell.v, registry)
    assert isinstance(v, Adt) and v.ty == "Value", v
    k = v.variant
    f = v.fields
    if k == "Integer":
        return ("int", signed(_ev(model, f[0].fields[0].v), 128))
    if k == "Bytes":
        return ("bytes", seq_to_bytes(model, f[0], registry=registry))
    if k == "Text":
        return ("text", seq_to_bytes(model, f[0], registry=registry))
    if k == "Float":
        return ("float", _ev(model, f[0].v))
    if k == "Bool":
        return ("bool", bool(_ev(model, f[0].v)))
    if k == "Null":
        return ("null",)
    if k == "Tag":
        return ("tag", _ev(model, f[0].v), value_to_tree(model, f[1], registry))
    if k == "Array":
        return ("array", [value_to_tree(model, x, registry) for x in f[0].elems])
    if k == "Map":
        return ("map", [(value_to_tree(model, t.fields[0], registry), value_to_tree(model, t.fields[1], registry))
                        for t in f[0].elems])
    raise ValueError(k)


# ------------------------------------------------------------------------------- Debug printing

def rust_str(b):
    out = ['"']
    for ch in bytes(b).decode("utf-8", "replace"):
        o = ord(ch)
        if ch == '"':
            out.append('\\"')
        elif ch == "\\":
            out.append("\\\\")
        elif ch == "\n":
            out.append("\\n")
        elif ch == "\r":
            out.append("\\r")
        elif ch == "\t":
            out.append("\\t")
        elif ch == "'":
            out.append("'")
        elif o == 0:
            out.append("\\0")
        elif o < 0x20 or o == 0x7F:
            out.append("\\u{%x}" % o)
        else:
            out.append(ch)
    out.append('"')
    return "".join(out)


class DebugFmt:
    def __init__(self, impls, model=None, registry=None):
        self.impls = impls
        self.model = model
        self.registry = registry

    def sc(self, v):
        x = v.v
        if is_sym(x):
            if self.model is None:
                return "<sym>"
            x = _ev(self.model, x)
            if v.ty != "bool":
                x = signed(x, v.bits) if v.signed else x
        if v.enum:
            name = self.impls.variant_of_discr(v.enum, int(x))
            return name if name is not None else "<%s:%s>" % (v.enum, x)
        if v.ty == "bool":
            return "true" if x else "false"
        if v.ty == "f64":
            return "f%016x" % (int(x) & (1 << 64) - 1)
        return str(int(x))

    def fmt(self, v):
        while isinstance(v, Ref):
            v = v.get()
        if isinstance(v, Sc):
            return self.sc(v)
        if isinstance(v, BoxV):
            return self.fmt(v.cell.v)
        if isinstance(v, Lazy):
            if v.node.kind is None:
                return "Null"        # undecided input positions are concretised as null
            return self.fmt(tree_to_value(node_to_tree(self.model, v.node, self.registry)))
        if isinstance(v, VecV):
            if v.kind in ("string", "str"):
                if self.model is None and (v.elems is None or any(is_sym(x.v) for x in v.elems)):
                    return "<symtext>"
                return rust_str(seq_to_bytes(self.model, v, registry=self.registry))
            if v.elems is None:
                if self.model is None:
                    return "<symbytes>"
                return "[" + ", ".join(str(x) for x in seq_to_bytes(self.model, v, registry=self.registry)) + "]"
            return "[" + ", ".join(self.fmt(x) for x in v.elems) + "]"
        if isinstance(v, SetV):
            return "{" + ", ".join(self.fmt(x) for x in v.elems) + "}"
        if isinstance(v, Tup):
            return "(" + ", ".join(self.fmt(x) for x in v.fields) + ")"
        if isinstance(v, Arr):
            return "[" + ", ".join(self.fmt(x) for x in v.fields) + "]"
        if v is UNIT:
            return "()"
        if isinstance(v, Adt):
            if v.variant is not None:
                if not v.fields:
                    return v.variant
                return "%s(%s)" % (v.variant, ", ".join(self.fmt(x) for x in v.fields))
            names = self.impls.struct_fields(v.ty)
            if names is None or v.ty in self.impls.tuple_structs or (names and names[0].isdigit()):
                if not v.fields:
                    return v.ty
                return "%s(%s)" % (v.ty, ", ".join(self.fmt(x) for x in v.fields))
            if not names:
                return v.ty
            return "%s { %s }" % (v.ty, ", ".join("%s: %s" % (n, self.fmt(x)) for n, x in zip(names, v.fields)))
        return repr(v)

    def result(self, r):
        """Same text as the replayer's `show`: 'OK <debug>' / 'ERR <variant>'."""
        if r.variant == "Ok":
            return "OK " + self.fmt(r.fields[0])
        e = r.fields[0]
        if e.variant == "UnexpectedItem":
            a, b = (rust_str(seq_to_bytes(self.model, deref_(x), registry=self.registry)) for x in e.fields)
            return "ERR UnexpectedItem(%s, %s)" % (a, b)
        return "ERR " + e.variant


def deref_(v):
    while isinstance(v, Ref):
        v = v.get()
    return v


_FLOAT_RE = re.compile(r"(Float|FractionalSeconds)\(([^()]*)\)")


def normalize_native(s):
    """Replace native float renderings by bit patterns so that both sides compare exactly."""
    def rep(m):
        txt = m.group(2)
        try:
            f = float(txt.replace("NaN", "nan"))
        except ValueError:
            return m.group(0)
        return "%s(f%016x)" % (m.group(1), struct.unpack(">Q", struct.pack(">d", f))[0])
    return _FLOAT_RE.sub(rep, s)
