"""Independent reference encoders: typed in-memory value -> the `ciborium::Value` tree its CDDL
prescribes (RFC 8152 sections 3, 4, 5, 6, 7, 11; RFC 8392).  Written from the specifications and
the property statements, never from coset's to_cbor_value code.

Maps are produced in the order: standard parameters by ascending label, then extras in their given
order; comparisons (see `value_eq`) treat the standard entries modulo order and the extras in
relative order, as C11 states.
"""
import z3

import models
from values import UNIT, Adt, Arr, BoxV, Cell, Lazy, Ref, Sc, SetV, Tup, VecV, bv, is_sym


class EncodeFault(Exception):
    """The in-memory value cannot be encoded per the property (e.g. duplicate labels)."""

    def __init__(self, kind):
        Exception.__init__(self, kind)
        self.kind = kind


class RefEnc:
    def __init__(self, ctx, impls):
        self.ctx, self.impls = ctx, impls
        self.protected_seen = []      # (ProtectedHeader value, expected header map or None)

    def f(self, adt, name):
        order = self.impls.struct_fields(adt.ty)
        return adt.fields[order.index(name)]

    # ---- leaves ---------------------------------------------------------------------------
    def vint(self, sc):
        if is_sym(sc.v):
            t = z3.SignExt(128 - sc.bits, sc.v) if sc.signed else z3.ZeroExt(128 - sc.bits, sc.v)
            return Adt("Value", "Integer", [Adt("Integer", None, [Sc("i128", z3.simplify(t))])])
        return Adt("Value", "Integer", [Adt("Integer", None, [Sc("i128", int(sc.v))])])

    def vbytes(self, v):
        return Adt("Value", "Bytes", [VecV(None if v.elems is None else list(v.elems), v.opaque, "vec")])

    def vtext(self, v):
        return Adt("Value", "Text", [VecV(None if v.elems is None else list(v.elems), v.opaque, "string")])

    def vnull(self):
        return Adt("Value", "Null", [])

    def varray(self, xs):
        return Adt("Value", "Array", [VecV(list(xs), None, "vec")])

    def vmap(self, kvs):
        return Adt("Value", "Map", [VecV([Tup([k, v]) for k, v in kvs], None, "vec")])

    def opt_bytes(self, o):
        return self.vnull() if o.variant == "None" else self.vbytes(o.fields[0])

    def nonempty(self, v):
        n = models.seq_len(self.ctx, v)
        if is_sym(n.v):
            return not self.ctx.branch(n.v == 0, "enc:empty")
        return n.v != 0

    # ---- labels --------------------------------------------------------------------------------
    def label(self, lab):
        """Label / RegisteredLabel / RegisteredLabelWithPrivate -> Value"""
        if lab.variant == "Text":
            return self.vtext(lab.fields[0])
        x = lab.fields[0]            # Int(i64) | PrivateUse(i64) | Assigned(enum = its registered number)
        return self.vint(Sc("i64", x.v if is_sym(x.v) else int(x.v)))

    def same_label_value(self, a, b):
        """Do two encoded keys denote the same label?"""
        if a.variant != b.variant:
            return False
        if a.variant == "Integer":
            x, y = a.fields[0].fields[0], b.fields[0].fields[0]
            if not is_sym(x.v) and not is_sym(y.v):
                return x.v == y.v
            return self.ctx.branch(bv(x) == bv(y), "enc:same-int-key")
        c = models.bytes_eq(self.ctx, a.fields[0], b.fields[0])
        if c is True or c is False:
            return c
        return self.ctx.branch(c, "enc:same-text-key")

    def check_distinct(self, kvs):
        for i in range(len(kvs)):
            for j in range(i):
                if self.same_label_value(kvs[i][0], kvs[j][0]):
                    raise EncodeFault("dup")

    def key_int(self, n):
        return self.vint(Sc("i64", n))

    # ---- header -----------------------------------------------------------------------------------
    def header(self, h):
        kv = []
        alg = self.f(h, "alg")
        if alg.variant == "Some":
            kv.append((self.key_int(1), self.label(alg.fields[0])))
        crit = self.f(h, "crit")
        if crit.elems:
            kv.append((self.key_int(2), self.varray([self.label(c) for c in crit.elems])))
        ct = self.f(h, "content_type")
        if ct.variant == "Some":
            kv.append((self.key_int(3), self.label(ct.fields[0])))
        for n, name in ((4, "key_id"), (5, "iv"), (6, "partial_iv")):
            b = self.f(h, name)
            if self.nonempty(b):
                kv.append((self.key_int(n), self.vbytes(b)))
        cs = self.f(h, "counter_signatures")
        if len(cs.elems) == 1:
            kv.append((self.key_int(7), self.signature(cs.elems[0])))
        elif len(cs.elems) > 1:
            kv.append((self.key_int(7), self.varray([self.signature(s) for s in cs.elems])))
        for t in self.f(h, "rest").elems:
            kv.append((self.label(t.fields[0]), t.fields[1]))
        self.check_distinct(kv)
        return self.vmap(kv)

    def header_is_empty(self, h):
        if self.f(h, "alg").variant == "Some" or self.f(h, "content_type").variant == "Some":
            return False
        if self.f(h, "crit").elems or self.f(h, "counter_signatures").elems or self.f(h, "rest").elems:
            return False
        for name in ("key_id", "iv", "partial_iv"):
            if self.nonempty(self.f(h, name)):
                return False
        return True

    def protected(self, p):
        """-> ('bytes', VecV)  retained wire bytes | ('empty',) | ('enc', expected header map)"""
        od = self.f(p, "original_data")
        if od.variant == "Some":
            return ("bytes", od.fields[0])
        h = self.f(p, "header")
        if self.header_is_empty(h):
            return ("empty",)
        return ("enc", self.header(h))

    def protected_value(self, p):
        """Expected protected slot as a Value, with opaque placeholder for a serialised map: the
        comparison (`value_eq`) resolves `('enc', map)` against what the writer stub recorded."""
        k = self.protected(p)
        if k[0] == "bytes":
            return self.vbytes(k[1])
        if k[0] == "empty":
            return Adt("Value", "Bytes", [VecV([], None, "vec")])
        return Adt("EncodedBstr", None, [k[1]])

    # ---- structures ---------------------------------------------------------------------------------
    def signature(self, s):
        return self.varray([self.protected_value(self.f(s, "protected")), self.header(self.f(s, "unprotected")),
                            self.vbytes(self.f(s, "signature"))])

    def sign1(self, x):
        return self.varray([self.protected_value(self.f(x, "protected")), self.header(self.f(x, "unprotected")),
                            self.opt_bytes(self.f(x, "payload")), self.vbytes(self.f(x, "signature"))])

    def sign(self, x):
        return self.varray([self.protected_value(self.f(x, "protected")), self.header(self.f(x, "unprotected")),
                            self.opt_bytes(self.f(x, "payload")),
                            self.varray([self.signature(s) for s in self.f(x, "signatures").elems])])

    def mac0(self, x):
        return self.varray([self.protected_value(self.f(x, "protected")), self.header(self.f(x, "unprotected")),
                            self.opt_bytes(self.f(x, "payload")), self.vbytes(self.f(x, "tag"))])

    def mac(self, x):
        return self.varray([self.protected_value(self.f(x, "protected")), self.header(self.f(x, "unprotected")),
                            self.opt_bytes(self.f(x, "payload")), self.vbytes(self.f(x, "tag")),
                            self.varray([self.recipient(r) for r in self.f(x, "recipients").elems])])

    def encrypt0(self, x):
        return self.varray([self.protected_value(self.f(x, "protected")), self.header(self.f(x, "unprotected")),
                            self.opt_bytes(self.f(x, "ciphertext"))])

    def encrypt(self, x):
        return self.varray([self.protected_value(self.f(x, "protected")), self.header(self.f(x, "unprotected")),
                            self.opt_bytes(self.f(x, "ciphertext")),
                            self.varray([self.recipient(r) for r in self.f(x, "recipients").elems])])

    def recipient(self, x):
        items = [self.protected_value(self.f(x, "protected")), self.header(self.f(x, "unprotected")),
                 self.opt_bytes(self.f(x, "ciphertext"))]
        rs = self.f(x, "recipients").elems
        if rs:
            items.append(self.varray([self.recipient(r) for r in rs]))
        return self.varray(items)

    # ---- key -------------------------------------------------------------------------------------------
    def key(self, k):
        kv = [(self.key_int(1), self.label(self.f(k, "kty")))]
        if self.nonempty(self.f(k, "key_id")):
            kv.append((self.key_int(2), self.vbytes(self.f(k, "key_id"))))
        alg = self.f(k, "alg")
        if alg.variant == "Some":
            kv.append((self.key_int(3), self.label(alg.fields[0])))
        ops = self.f(k, "key_ops")
        if ops.elems:
            kv.append((self.key_int(4), Adt("UnorderedArray", None, [[self.label(o) for o in ops.elems]])))
        if self.nonempty(self.f(k, "base_iv")):
            kv.append((self.key_int(5), self.vbytes(self.f(k, "base_iv"))))
        for t in self.f(k, "params").elems:
            kv.append((self.label(t.fields[0]), t.fields[1]))
        self.check_distinct(kv)
        return self.vmap(kv)

    def keyset(self, ks):
        return self.varray([self.key(k) for k in ks.fields[0].elems])

    # ---- CWT -------------------------------------------------------------------------------------------
    def timestamp(self, t):
        if t.variant == "WholeSeconds":
            return self.vint(t.fields[0])
        return Adt("Value", "Float", [t.fields[0]])

    def claims(self, c):
        kv = []
        for n, name, how in ((1, "issuer", self.vtext), (2, "subject", self.vtext), (3, "audience", self.vtext),
                             (4, "expiration_time", self.timestamp), (5, "not_before", self.timestamp),
                             (6, "issued_at", self.timestamp), (7, "cwt_id", self.vbytes)):
            o = self.f(c, name)
            if o.variant == "Some":
                kv.append((self.key_int(n), how(o.fields[0])))
        for t in self.f(c, "rest").elems:
            kv.append((self.label(t.fields[0]), t.fields[1]))
        self.check_distinct(kv)
        return self.vmap(kv)

    # ---- KDF context ---------------------------------------------------------------------------------------
    def party_info(self, p):
        n = self.f(p, "nonce")
        if n.variant == "None":
            nv = self.vnull()
        elif n.fields[0].variant == "Bytes":
            nv = self.vbytes(n.fields[0].fields[0])
        else:
            nv = self.vint(n.fields[0].fields[0])
        return self.varray([self.opt_bytes(self.f(p, "identity")), nv, self.opt_bytes(self.f(p, "other"))])

    def supp_pub_info(self, s):
        items = [self.vint(self.f(s, "key_data_length")), self.protected_value(self.f(s, "protected"))]
        o = self.f(s, "other")
        if o.variant == "Some":
            items.append(self.vbytes(o.fields[0]))
        return self.varray(items)

    def kdf_context(self, c):
        items = [self.label(self.f(c, "algorithm_id")), self.party_info(self.f(c, "party_u_info")),
                 self.party_info(self.f(c, "party_v_info")), self.supp_pub_info(self.f(c, "supp_pub_info"))]
        for b in self.f(c, "supp_priv_info").elems:
            items.append(self.vbytes(b))
        return self.varray(items)


ENCODERS = {"Header": "header", "CoseSignature": "signature", "CoseSign": "sign", "CoseSign1": "sign1",
            "CoseMac": "mac", "CoseMac0": "mac0", "CoseEncrypt": "encrypt", "CoseEncrypt0": "encrypt0",
            "CoseRecipient": "recipient", "CoseKey": "key", "CoseKeySet": "keyset", "ClaimsSet": "claims",
            "PartyInfo": "party_info", "SuppPubInfo": "supp_pub_info", "CoseKdfContext": "kdf_context"}

STANDARD_KEYS = set(range(1, 8))


def deref(v):
    while isinstance(v, Ref):
        v = v.get()
    return v


def value_eq(ctx, actual, expected, written, std_keys=STANDARD_KEYS):
    """Does the Value tree coset produced equal the reference tree?  -> z3 Bool / bool.
    `written`: opaque identity -> tree recorded by the serialiser stub (for bstr-wrapped maps).
    Map entries under the standard labels compare modulo order; the remaining entries in order."""
    import hcommon
    a, e = deref(actual), deref(expected)
    if isinstance(e, Adt) and e.ty == "EncodedBstr":
        # expected: a byte string wrapping the serialisation of e.fields[0]
        if not (isinstance(a, Adt) and a.ty == "Value" and a.variant == "Bytes"):
            return False
        seq = a.fields[0]
        if seq.elems is not None or seq.opaque.ident not in written:
            return False
        return value_eq(ctx, written[seq.opaque.ident], e.fields[0], written)
    if isinstance(e, Adt) and e.ty == "UnorderedArray":
        if not (isinstance(a, Adt) and a.variant == "Array"):
            return False
        xs, ys = a.fields[0].elems, e.fields[0]
        if len(xs) != len(ys):
            return False
        conds = []
        for y in ys:
            alts = [value_eq(ctx, x, y, written) for x in xs]
            if any(c is True for c in alts):
                continue
            alts = [c for c in alts if c is not False]
            if not alts:
                return False
            conds.append(z3.Or(alts))
        return z3.And(conds) if conds else True
    if isinstance(a, Lazy) or isinstance(e, Lazy):
        return hcommon.spec_eq(ctx, a, e)
    if not (isinstance(a, Adt) and isinstance(e, Adt)) or a.ty != "Value" or e.ty != "Value":
        return hcommon.spec_eq(ctx, a, e)
    if a.variant != e.variant:
        return False
    if a.variant == "Array":
        xs, ys = a.fields[0].elems, e.fields[0].elems
        if len(xs) != len(ys):
            return False
        return _and([value_eq(ctx, x, y, written) for x, y in zip(xs, ys)])
    if a.variant == "Map":
        xs = [(deref(t).fields[0], deref(t).fields[1]) for t in a.fields[0].elems]
        ys = [(deref(t).fields[0], deref(t).fields[1]) for t in e.fields[0].elems]
        if len(xs) != len(ys):
            return False

        def split(kvs):
            std, rest = {}, []
            for k, v in kvs:
                kk = deref(k)
                n = None
                if isinstance(kk, Adt) and kk.variant == "Integer":
                    t = kk.fields[0].fields[0].v
                    if not is_sym(t) and int(t) in std_keys:
                        n = int(t)
                if n is not None and n not in std:
                    std[n] = v
                else:
                    rest.append((k, v))
            return std, rest
        sa, ra = split(xs)
        se, re_ = split(ys)
        if set(sa) != set(se) or len(ra) != len(re_):
            return False
        conds = [value_eq(ctx, sa[n], se[n], written) for n in sa]
        for (k1, v1), (k2, v2) in zip(ra, re_):
            conds.append(value_eq(ctx, k1, k2, written))
            conds.append(value_eq(ctx, v1, v2, written))
        return _and(conds)
    if a.variant == "Tag":
        return _and([hcommon.spec_eq(ctx, a.fields[0], e.fields[0]), value_eq(ctx, a.fields[1], e.fields[1], written)])
    return hcommon.spec_eq(ctx, a, e)


def _and(conds):
    out = []
    for c in conds:
        if c is False:
            return False
        if c is not True:
            out.append(c)
    if not out:
        return True
    return z3.And(out) if len(out) > 1 else out[0]
