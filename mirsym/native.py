"""Handle on the native replayer process (real coset, real ciborium)."""
import os
import subprocess
import sys

HERE = os.path.dirname(os.path.abspath(__file__))
VERIF = os.path.dirname(HERE)
CACHE = os.path.join(VERIF, ".cache")


def build_replayer(repo="/repo", profile="release"):
    target = os.path.join(CACHE, "replay-target")
    crate = os.path.join(VERIF, "replay")
    lock = os.path.join(crate, "Cargo.lock")
    if not os.path.exists(lock) and os.path.exists(os.path.join(repo, "Cargo.lock")):
        import shutil
        shutil.copy(os.path.join(repo, "Cargo.lock"), lock)
    cmd = ["cargo", "build", "--offline", "--manifest-path", os.path.join(crate, "Cargo.toml")]
    if profile == "release":
        cmd.append("--release")
    env = dict(os.environ, CARGO_TARGET_DIR=target, CARGO_NET_OFFLINE="true")
    p = subprocess.run(cmd, env=env, stdout=subprocess.PIPE, stderr=subprocess.STDOUT, text=True)
    if p.returncode != 0:
        raise RuntimeError("replayer build failed:\n" + p.stdout[-3000:])
    return os.path.join(target, "release" if profile == "release" else "debug", "coset-replay")


class Native:
    def __init__(self, binary):
        self.binary = binary
        self.p = None
        self._start()

    def _start(self):
        self.p = subprocess.Popen([self.binary], stdin=subprocess.PIPE, stdout=subprocess.PIPE,
                                  stderr=subprocess.DEVNULL, text=True, bufsize=1)

    def ask(self, line):
        try:
            self.p.stdin.write(line.strip() + "\n")
            self.p.stdin.flush()
            out = self.p.stdout.readline()
        except (BrokenPipeError, OSError):
            out = ""
        if out == "":
            rc = self.p.poll()
            self._start()
            return "CRASH rc=%s" % rc
        return out.rstrip("\n")

    def close(self):
        try:
            self.p.stdin.close()
            self.p.wait(timeout=5)
        except Exception:
            self.p.kill()
