"""Translator validation (Serval-style): run the MIR interpreter *concretely* on the repo's own
test vectors and compare its observable outcome with the native build for every decoding entry
point.  Any disagreement marks the engine broken before any property verdict is believed."""
import glob
import os
import re
import sys

HERE = os.path.dirname(os.path.abspath(__file__))
sys.path.insert(0, HERE)

import concrete  # noqa: E402
from interp import Panic, Unsupported  # noqa: E402
from mirparse import matching  # noqa: E402

TYPES = {
    "Label": "common::Label",
    "RegisteredLabel<HeaderParameter>": "common::RegisteredLabel<iana::HeaderParameter>",
    "RegisteredLabel<KeyType>": "common::RegisteredLabel<iana::KeyType>",
    "RegisteredLabel<KeyOperation>": "common::RegisteredLabel<iana::KeyOperation>",
    "RegisteredLabel<CoapContentFormat>": "common::RegisteredLabel<iana::CoapContentFormat>",
    "RegisteredLabelWithPrivate<Algorithm>": "common::RegisteredLabelWithPrivate<iana::Algorithm>",
    "RegisteredLabelWithPrivate<CwtClaimName>": "common::RegisteredLabelWithPrivate<iana::CwtClaimName>",
    "Header": "header::Header",
    "ProtectedHeader": "header::ProtectedHeader",
    "CoseSignature": "sign::CoseSignature",
    "CoseSign": "sign::CoseSign",
    "CoseSign1": "sign::CoseSign1",
    "CoseMac": "mac::CoseMac",
    "CoseMac0": "mac::CoseMac0",
    "CoseEncrypt": "encrypt::CoseEncrypt",
    "CoseEncrypt0": "encrypt::CoseEncrypt0",
    "CoseRecipient": "encrypt::CoseRecipient",
    "CoseKey": "key::CoseKey",
    "CoseKeySet": "key::CoseKeySet",
    "ClaimsSet": "cwt::ClaimsSet",
    "PartyInfo": "context::PartyInfo",
    "SuppPubInfo": "context::SuppPubInfo",
    "CoseKdfContext": "context::CoseKdfContext",
}
TAGGED = ["CoseSign", "CoseSign1", "CoseMac", "CoseMac0", "CoseEncrypt", "CoseEncrypt0"]


def test_vectors(repo):
    """Hex strings appearing in the repo's test modules (concat!() groups and single literals)."""
    out = []
    seen = set()
    for path in sorted(glob.glob(os.path.join(repo, "src", "**", "tests.rs"), recursive=True)):
        src = open(path).read()
        src_nc = re.sub(r"//[^\n]*", "", src)
        for m in re.finditer(r"concat!\(", src_nc):
            e = matching(src_nc, m.end() - 1)
            lits = re.findall(r'"([^"\\]*)"', src_nc[m.end():e])
            s = "".join(lits).replace(" ", "")
            if s and len(s) % 2 == 0 and re.fullmatch(r"[0-9a-fA-F]+", s) and s not in seen:
                seen.add(s)
                out.append(s.lower())
        for lit in re.findall(r'"([0-9a-fA-F]{2,})"', src_nc):
            if len(lit) % 2 == 0 and lit not in seen:
                seen.add(lit)
                out.append(lit.lower())
    return out


def run_concrete(eng, entry, args_fn, fmt):
    """One concrete execution (exactly one path expected)."""
    res = []

    def h(ctx):
        return ctx.call(entry, args_fn(ctx))
    for ctx, out in eng.explore(h, max_paths=3, count=False):
        res.append((ctx, out))
    if len(res) != 1:
        return "FORKED(%d)" % len(res)
    ctx, out = res[0]
    if out[0] == "ok":
        return fmt.result(out[1])
    if out[0] == "panic":
        return "PANIC"
    return "ENGINE " + str(out)


def validate(eng, native, repo, limit=None, verbose=False):
    from values import Ref, Cell, VecV, Sc
    vecs = test_vectors(repo)
    if limit:
        vecs = vecs[:limit]
    fmt = concrete.DebugFmt(eng.impls)
    checked = disagreements = skipped = 0
    bad = []
    eng.summaries_on = False
    try:
        for hx in vecs:
            canon = native.ask("reenc " + hx)
            tree = None
            if canon.startswith("OK "):
                try:
                    tree = concrete.decode_all(bytes.fromhex(canon[3:]))
                except Exception:
                    tree = None
            data = bytes.fromhex(hx)
            for tname, path in TYPES.items():
                # (1) Value-level entry point
                if tree is not None:
                    want = concrete.normalize_native(native.ask("decodev %s %s" % (tname, hx)))
                    try:
                        got = run_concrete(eng, "<%s as AsCborValue>::from_cbor_value" % path,
                                           lambda ctx: [concrete.tree_to_value(tree)], fmt)
                    except Unsupported as e:
                        got = "UNSUPPORTED %s" % e
                    checked += 1
                    if got != want:
                        disagreements += 1
                        bad.append(("decodev", tname, hx, want, got))
                # (2) byte-level entry point (parser stub in concrete mode = reference decoder);
                #     only where the reference decoder agrees with ciborium on the whole input
                if tree is not None and canon[3:] == hx:
                    want = concrete.normalize_native(native.ask("decode %s %s" % (tname, hx)))
                    try:
                        got = run_concrete(eng, "<%s as CborSerializable>::from_slice" % path,
                                           lambda ctx: [Ref(Cell(VecV([Sc("u8", b) for b in data], None, "vec")))], fmt)
                    except Unsupported as e:
                        got = "UNSUPPORTED %s" % e
                    checked += 1
                    if got != want:
                        disagreements += 1
                        bad.append(("decode", tname, hx, want, got))
                else:
                    skipped += 1
    finally:
        eng.summaries_on = True
    return {"vectors": len(vecs), "checked": checked, "disagreements": disagreements,
            "skipped": skipped, "bad": bad[:20]}


if __name__ == "__main__":
    from loader import load_engine
    from native import Native, build_replayer
    repo = os.environ.get("VERIF_REPO", "/repo")
    eng = load_engine(sys.argv[1], repo)
    nat = Native(build_replayer(repo))
    r = validate(eng, nat, repo, limit=int(sys.argv[2]) if len(sys.argv) > 2 else None)
    nat.close()
    for b in r["bad"]:
        print(b[0], b[1], b[2][:60], "\n   native:", b[3][:300], "\n   mirsym:", b[4][:300])
    print({k: v for k, v in r.items() if k != "bad"})
