"""Rust type / path strings as printed in MIR -> small trees, with unification and substitution."""
import re
from functools import lru_cache

from mirparse import ParseError, find_top, matching, split_top

INT_BITS = {"i8": 8, "i16": 16, "i32": 32, "i64": 64, "i128": 128, "isize": 64,
            "u8": 8, "u16": 16, "u32": 32, "u64": 64, "u128": 128, "usize": 64, "char": 32}
PRIMS = set(INT_BITS) | {"bool", "str", "f64", "f32", "()", "!"}

KEEP_PARENT = {"Error"}          # ambiguous last segments: keep the parent module
RENAME = {"value::Integer": "Integer"}


class Ty:
    __slots__ = ("name", "args", "_s")

    def __init__(self, name, args=()):
        self.name, self.args = name, tuple(args)
        self._s = None

    def __str__(self):
        if self._s is None:
            if self.name in ("&", "&mut", "*const", "*mut"):
                self._s = self.name + " " + str(self.args[0]) if self.name.startswith("*") else \
                    self.name + ("" if self.name == "&" else " ") + str(self.args[0])
            elif self.name == "tuple":
                self._s = "(" + ", ".join(map(str, self.args)) + ")"
            elif self.name == "slice":
                self._s = "[%s]" % self.args[0]
            elif self.name == "array":
                self._s = "[%s; %s]" % (self.args[0], self.args[1])
            elif self.args:
                self._s = "%s<%s>" % (self.name, ", ".join(map(str, self.args)))
            else:
                self._s = self.name
        return self._s

    __repr__ = __str__

    def __eq__(self, o):
        return isinstance(o, Ty) and str(self) == str(o)

    def __hash__(self):
        return hash(str(self))


def _strip_lifetimes(s):
    s = re.sub(r"'\w+\s*,\s*", "", s)
    s = re.sub(r"<'\w+>", "", s)
    s = re.sub(r"&'\w+ ", "&", s)
    return s


@lru_cache(maxsize=None)
def parse_type(s):
    s = _strip_lifetimes(s.strip())
    if s.startswith("&mut "):
        return Ty("&mut", [parse_type(s[5:])])
    if s.startswith("&"):
        return Ty("&", [parse_type(s[1:])])
    if s.startswith("*const "):
        return Ty("*const", [parse_type(s[7:])])
    if s.startswith("*mut "):
        return Ty("*mut", [parse_type(s[5:])])
    if s.startswith("dyn "):
        return Ty("dyn", [Ty(s[4:])])
    if s.startswith("impl "):
        return Ty("impl", [Ty(s[5:])])
    if s.startswith("{closure@"):
        return Ty(s)
    if s.startswith("fn(") or s.startswith("unsafe fn(") or s.startswith("for<"):
        # fn pointer / fn item type:  fn(A) -> R {path}
        b = find_top(s, " {")
        if b > 0 and s.endswith("}"):
            return Ty("fnitem", [Ty(s[b + 2:-1])])
        return Ty("fnptr:" + s)
    if s.startswith("("):
        e = matching(s, 0)
        if e == len(s) - 1:
            inner = s[1:-1].strip()
            if inner == "":
                return Ty("()")
            return Ty("tuple", [parse_type(x) for x in split_top(inner)])
    if s.startswith("["):
        e = matching(s, 0)
        if e == len(s) - 1:
            inner = s[1:-1]
            semi = find_top(inner, "; ")
            if semi >= 0:
                return Ty("array", [parse_type(inner[:semi]), Ty(inner[semi + 2:].strip())])
            return Ty("slice", [parse_type(inner)])
    if s.startswith("<"):
        # qualified path  <T as Trait>::Assoc
        e = matching(s, 0)
        inner = s[1:e]
        k = find_top(inner, " as ")
        rest = s[e + 1:]
        if k >= 0 and rest.startswith("::"):
            return Ty("assoc:" + rest[2:], [parse_type(inner[:k]), parse_type(inner[k + 4:])])
        raise ParseError("type %r" % s)
    # path with optional generic args
    lt = find_top(s, "<")
    if lt >= 0:
        e = matching(s, lt)
        head, args, tail = s[:lt], s[lt + 1:e], s[e + 1:]
        if head.endswith("::"):
            head = head[:-2]
        if tail:
            # e.g. core::slice::<impl [u8]>  (handled by callers) or  Foo<T>::Bar
            return Ty(canon_name(head) + "<...>" + tail, [parse_type(x) for x in split_top(args)])
        return Ty(canon_name(head), [parse_type(x) for x in split_top(args)])
    return Ty(canon_name(s))


def canon_name(path):
    path = path.strip()
    if path in PRIMS:
        return path
    segs = path.split("::")
    last = segs[-1]
    if last in KEEP_PARENT and len(segs) >= 2:
        return segs[-2] + "::" + last
    return last


def subst(t, env):
    """Replace type parameters (names found in env) throughout t."""
    if not env:
        return t
    if not t.args:
        if t.name in env:
            return env[t.name]
        return t
    new = [subst(a, env) for a in t.args]
    if t.name.startswith("assoc:"):
        r = resolve_assoc(t.name[6:], new[0], new[1])
        if r is not None:
            return r
    return Ty(t.name, new)


def resolve_assoc(assoc, selfty, trait):
    """The few associated types coset's generic code uses."""
    if trait.name == "IntoIterator":
        if assoc == "Item":
            if selfty.name in ("Vec", "BTreeSet", "IntoIter"):
                return selfty.args[0]
        if assoc == "IntoIter":
            if selfty.name in ("Vec", "BTreeSet"):
                return Ty("IntoIter", [selfty.args[0]])
            if selfty.name == "IntoIter":
                return selfty
    return None


def unify(pat, con, params, env=None):
    """Match pattern type `pat` (with type parameters `params`) against concrete `con`."""
    env = {} if env is None else env
    if not pat.args and pat.name in params:
        if pat.name in env:
            return env if env[pat.name] == con else None
        env[pat.name] = con
        return env
    if pat.name != con.name or len(pat.args) != len(con.args):
        return None
    for a, b in zip(pat.args, con.args):
        if unify(a, b, params, env) is None:
            return None
    return env


class CallPath:
    """A callee as printed in a MIR call terminator."""
    __slots__ = ("kind", "self_ty", "trait", "method", "generics", "raw", "path")

    def __repr__(self):
        return "<CallPath %s>" % self.raw


@lru_cache(maxsize=None)
def parse_callpath(s):
    """Forms:
        <SelfTy as Trait<..>>::method::<G>        kind='trait'
        TypePath::<G>::method::<G2>                kind='inherent' (or free fn in a module)
        core::slice::<impl [u8]>::is_empty          kind='inherent' (self = [u8])
        free_fn::<G>                                kind='free'
    """
    cp = CallPath()
    cp.raw = s.strip()
    s = _strip_lifetimes(s.strip())
    cp.generics = ()
    cp.trait = None
    cp.self_ty = None
    cp.path = None
    if s.startswith("<"):
        e = matching(s, 0)
        inner = s[1:e]
        k = find_top(inner, " as ")
        rest = s[e + 1:]
        assert rest.startswith("::"), s
        rest = rest[2:]
        g = find_top(rest, "::<")
        if g >= 0:
            cp.method = rest[:g]
            cp.generics = tuple(parse_type(x) for x in split_top(rest[g + 3:matching(rest, g + 2)]))
        else:
            cp.method = rest
        if k >= 0:
            cp.kind = "trait"
            cp.self_ty = parse_type(inner[:k])
            cp.trait = parse_type(inner[k + 4:])
        else:
            cp.kind = "inherent"
            cp.self_ty = parse_type(inner)
        return cp
    # split on top-level '::'
    segs, last, i = [], 0, 0
    idxs = [i for i, c in __import__("mirparse").scan_top(s) if c == ":" and s.startswith("::", i)]
    # scan_top yields each ':' separately; keep the first of each '::' pair
    seps = []
    for i in idxs:
        if not seps or i != seps[-1] + 1:
            seps.append(i)
    for i in seps:
        segs.append(s[last:i])
        last = i + 2
    segs.append(s[last:])
    segs = [x for x in segs if x != ""]
    # trailing turbofish generics on the function
    if segs and segs[-1].startswith("<") and not segs[-1].startswith("<impl"):
        cp.generics = tuple(parse_type(x) for x in split_top(segs[-1][1:-1]))
        segs = segs[:-1]
    cp.method = segs[-1]
    head = segs[:-1]
    if not head:
        cp.kind = "free"
        cp.path = cp.method
        return cp
    # <impl [u8]> style
    if head[-1].startswith("<impl "):
        cp.kind = "inherent"
        cp.self_ty = parse_type(head[-1][6:-1])
        return cp
    # Type::<G>::method   or  module::function
    tgen = ()
    if head[-1].startswith("<"):
        tgen = tuple(parse_type(x) for x in split_top(head[-1][1:-1]))
        head = head[:-1]
    name = head[-1]
    if name[:1].isupper() or tgen:
        cp.kind = "inherent"
        cp.self_ty = Ty(canon_name("::".join(head)), tgen)
    else:
        cp.kind = "free"
        cp.path = "::".join(head + [cp.method])
    return cp
