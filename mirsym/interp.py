"""Path-forking symbolic executor for coset's MIR (Engine M).

Exploration is depth-first over *decision sequences*: a path is re-executed from the start with a
recorded prefix of decisions and extended at the first new decision point (stateless search, as in
DART-style engines).  Feasibility of every new branch is decided by z3 under the path condition.
"""
import re
import time

import z3

import models
from lazy import InputNode, Policy, force
from mirparse import ParseError
from rtypes import INT_BITS, Ty, parse_callpath, parse_type, subst, unify
from values import (MOVED, UNINIT, UNIT, Adt, Arr, BoxV, Cell, FnV, IterV, Lazy, Opaque, Ref, Sc,
                    SetV, Tup, VecV, bv, copy_val, is_sym, wrap, zbool)


class Panic(Exception):
    def __init__(self, kind, msg="", where=""):
        Exception.__init__(self, "%s: %s @ %s" % (kind, msg, where))
        self.kind, self.msg, self.where = kind, msg, where


# Longest byte string considered: no Rust slice is longer than isize::MAX, and all the strings of one
# execution share one address space -- with each at most 2^55 bytes, sums of up to 256 lengths
# (capacity computations) do not wrap, as they cannot on a real machine.
MAX_BYTES = 1 << 55


class Unsupported(Exception):
    pass


class Infeasible(Exception):
    pass


class OpaqueRead(Unsupported):
    """The code under analysis reads the content of a byte string that is modelled without content."""


class DepthExceeded(Exception):
    pass


TRANSPARENT = ("Unique", "NonNull", "MaybeUninit", "ManuallyDrop", "MaybeDangling")


class Frame:
    __slots__ = ("fn", "locals", "env", "name")

    def __init__(self, fn, env):
        self.fn, self.env = fn, env
        self.locals = {}
        self.name = fn.name


class Stats:
    def __init__(self):
        self.paths = self.forks = self.queries = self.steps = 0
        self.solver_s = 0.0
        self.functions = set()


class PathCtx:
    """Everything that belongs to one execution path."""

    def __init__(self, engine, prefix):
        self.engine = engine
        self.prefix = prefix
        self.decisions = []
        self.pending = []          # alternatives discovered on this path: list of decision lists
        self.solver = z3.Solver()
        self.pc = []
        self.counter = 0
        self.seq_counter = 0
        self.trace = []            # human-readable decisions
        self.side = {}             # per-path tables used by models (parser stub, writer stub, ...)
        self.depth = 0
        self.max_depth = 0
        self.inputs = {}
        self.stats = engine.stats
        self.last_model = None
        self._check_model = None

    # ---- symbols -------------------------------------------------------------------------
    def fresh_bv(self, name, bits):
        self.counter += 1
        return z3.BitVec("%s#%d" % (name, self.counter), bits)

    def fresh_bool(self, name):
        self.counter += 1
        return z3.Bool("%s#%d" % (name, self.counter))

    def fresh_bytes(self, name, mode, max_len, kind):
        """Byte string / text: 'opaque' = symbolic 64-bit length, content never read bytewise;
        'concrete' = length chosen by fork in 0..max_len, symbolic bytes (ASCII for text)."""
        if mode == "opaque":
            ln = self.fresh_bv(name + ".len", 64)
            self.assume(z3.ULE(ln, MAX_BYTES))
            self.side.setdefault("opaque_lens", []).append(ln)
            self.seq_counter += 1
            return VecV(None, Opaque("%s#%d" % (name, self.seq_counter), ln), kind)
        n = self.choose(max_len + 1, "len@" + name)
        elems = [Sc("u8", self.fresh_bv("%s[%d]" % (name, i), 8)) for i in range(n)]
        if kind == "string":
            # text is valid UTF-8: every well-formed byte sequence for n <= 3, ASCII beyond
            self.assume(utf8_valid([e.v for e in elems]))
        return VecV(elems, None, kind)

    def fresh_opaque(self, name, kind="vec", nonempty=False):
        ln = self.fresh_bv(name + ".len", 64)
        self.assume(z3.ULE(ln, MAX_BYTES))
        self.side.setdefault("opaque_lens", []).append(ln)
        if nonempty:
            self.assume(ln != 0)
        self.seq_counter += 1
        return VecV(None, Opaque("%s#%d" % (name, self.seq_counter), ln), kind)

    def opaque_eq(self, a, b):
        """Equality of two opaque byte strings with different identities: an unconstrained Bool
        (implying equal lengths), the same Bool for the same pair on this path."""
        key = tuple(sorted((a.ident, b.ident)))
        tab = self.side.setdefault("opaque_eq", {})
        if key not in tab:
            v = self.fresh_bool("eq(%s,%s)" % key)
            la = a.len if is_sym(a.len) else z3.BitVecVal(a.len, 64)
            lb = b.len if is_sym(b.len) else z3.BitVecVal(b.len, 64)
            self.assume(z3.Implies(v, la == lb))
            self.assume(z3.Implies(z3.And(la == 0, lb == 0), v))      # two empty strings are equal
            tab[key] = v
        return tab[key]

    def opaque_eq_concrete(self, a, conc):
        key = (a.ident, id(conc))
        tab = self.side.setdefault("opaque_eq", {})
        if key not in tab:
            la = a.len if is_sym(a.len) else z3.BitVecVal(a.len, 64)
            if len(conc.elems) == 0:
                tab[key] = (la == 0)                  # equal to the empty string iff empty
            else:
                v = self.fresh_bool("eqc(%s)" % a.ident)
                self.assume(z3.Implies(v, la == z3.BitVecVal(len(conc.elems), 64)))
                tab[key] = v
        return tab[key]

    def input_node_for_bytes(self, seq, ident):
        """Node standing for 'what these bytes parse to' (child of the Bytes node they came from)."""
        owner = self.side.get("bytes_nodes", {}).get(ident)
        if owner is not None:
            if owner.parsed is None:
                owner.parsed = InputNode(owner.path + ".parsed", owner.policy, owner.depth + 1)
            return owner.parsed
        name = "parsed(%s)" % (ident,)
        node = InputNode(name, self.engine.policy)
        self.inputs[name] = node
        return node

    def lazy_value(self, name, policy=None):
        node = InputNode(name, policy or self.engine.policy)
        self.inputs[name] = node
        return Lazy(node)

    # ---- path condition / forking ----------------------------------------------------------
    def assume(self, cond):
        if cond is True:
            return
        self.pc.append(cond)
        self.solver.add(cond)
        lm = self.last_model
        if lm is not None and not z3.is_true(lm.eval(cond, model_completion=True)):
            self.last_model = None

    def check(self, extra=None):
        t0 = time.time()
        self.stats.queries += 1
        if extra is not None:
            self.solver.push()
            self.solver.add(extra)
        r = self.solver.check()
        self._check_model = self.solver.model() if r == z3.sat else None
        if extra is not None:
            self.solver.pop()
        self.stats.solver_s += time.time() - t0
        if r == z3.unknown:
            raise Unsupported("solver returned unknown")
        return r == z3.sat

    def _decide(self, options, label):
        """options: list of z3 conditions (or True).  Returns index of the option taken."""
        i = len(self.decisions)
        if i < len(self.prefix):
            k = self.prefix[i]
        else:
            feas, mods = [], {}
            lm = self.last_model
            for j, c in enumerate(options):
                if c is True:
                    feas.append(j)
                    mods[j] = lm
                elif lm is not None and z3.is_true(lm.eval(c, model_completion=True)):
                    # the model of the current path condition already satisfies this option
                    feas.append(j)
                    mods[j] = lm
                elif self.check(c):
                    feas.append(j)
                    mods[j] = self._check_model
            if not feas:
                raise Infeasible(label)
            k = feas[0]
            self.last_model = mods.get(k)
            for alt in feas[1:]:
                self.pending.append(self.decisions + [alt])
            self.stats.forks += len(feas) - 1
        self.decisions.append(k)
        if options[k] is not True:
            self.pc.append(options[k])
            self.solver.add(options[k])
        self.trace.append((label, k))
        return k

    def branch(self, cond, label="br"):
        """Two-way fork on a z3 Bool (or Python bool)."""
        if cond is True or cond is False:
            return cond
        cond = z3.simplify(cond)
        if z3.is_true(cond):
            return True
        if z3.is_false(cond):
            return False
        return self._decide([cond, z3.Not(cond)], label) == 0

    def choose(self, n, label="choose"):
        if n == 1:
            return 0
        return self._decide([True] * n, label)

    def choose_cond(self, conds, label="switch"):
        return self._decide(conds, label)

    # ---- calling into the program ------------------------------------------------------------
    def call(self, path, args, env=None):
        return self.engine.call_path(self, path, args, env or {})

    def model(self):
        """A model of the path condition, preferring short byte strings (so that concretised inputs
        stay small); lengths are left as they must be when the path needs them large."""
        if not self.check():
            return None
        lens = self.side.get("opaque_lens", [])
        if lens:
            for bound in (8, 64, 70000):
                self.solver.push()
                self.solver.add(z3.And([z3.ULE(l, bound) for l in lens]))
                ok = self.solver.check() == z3.sat
                m = self.solver.model() if ok else None
                self.solver.pop()
                if ok:
                    return m
            self.solver.check()
        return self.solver.model()


class Engine:
    def __init__(self, program, impls, policy=None, max_call_depth=400, max_steps=2_000_000):
        self.prog = program
        self.impls = impls
        self.policy = policy or Policy()
        self.stats = Stats()
        self.max_call_depth = max_call_depth
        self.max_steps = max_steps
        self.const_cache = {}
        self.hooks = {}            # callee raw path -> python fn(ctx, args) (harness callbacks)
        self.summaries = {}
        self.summaries_on = True

    # ---------------------------------------------------------------------------------- explore
    def explore(self, harness, max_paths=None, deadline=None, count=True, initial=None, bfs=False):
        """Run `harness(ctx)` on every feasible path.  Yields (ctx, outcome) where outcome is
        ('ok', value) | ('panic', Panic) | ('depth', exc).  `initial` = decision prefixes to start
        from (sub-trees handed out by a previous breadth-first expansion); when the exploration
        stops early the unexplored prefixes are left in self.frontier."""
        from collections import deque
        work = deque([list(p) for p in initial] if initial is not None else [[]])
        self.frontier = []
        n = 0
        while work:
            if max_paths is not None and n >= max_paths:
                self.frontier = [list(p) for p in work]
                yield None, ("truncated", len(work))
                return
            if deadline is not None and time.time() > deadline:
                self.frontier = [list(p) for p in work]
                yield None, ("timeout", len(work))
                return
            prefix = work.popleft() if bfs else work.pop()
            ctx = PathCtx(self, prefix)
            try:
                val = harness(ctx)
                out = ("ok", val)
            except Panic as p:
                out = ("panic", p)
            except Infeasible:
                work.extend(ctx.pending if bfs else reversed(ctx.pending))
                continue
            except DepthExceeded as d:
                out = ("depth", d)
            work.extend(ctx.pending if bfs else reversed(ctx.pending))
            n += 1
            if count:
                self.stats.paths += 1
            yield ctx, out

    # ---------------------------------------------------------------------------------- calls
    def call_path(self, ctx, raw, args, env):
        """Call a function given its MIR path string (as printed in call terminators)."""
        cp = parse_callpath(raw)
        return self.dispatch(ctx, cp, args, env)

    def dispatch(self, ctx, cp, args, env):
        if cp.raw in self.hooks:
            return self.hooks[cp.raw](ctx, args)
        # substitute the caller's type parameters
        self_ty = subst(cp.self_ty, env) if cp.self_ty is not None else None
        trait = subst(cp.trait, env) if cp.trait is not None else None
        generics = tuple(subst(g, env) for g in cp.generics)
        # type parameters standing for closures / fn items: dynamic dispatch on the value
        if cp.kind == "trait" and trait.name in ("FnOnce", "FnMut", "Fn"):
            f = args[0]
            while isinstance(f, Ref):
                f = f.get()
            packed = args[1]
            return self.call_fnv(ctx, f, list(packed.fields) if isinstance(packed, Tup) else [packed])
        target = self.impls.resolve(cp, self_ty, trait, generics)
        if target is None and self_ty is not None and unresolved(self_ty):
            target = self.impls.resolve_dynamic(cp, trait, args)
        if target is not None:
            fn, fenv = target
            if generics:
                # method-level type parameters: names in order of first appearance in the signature
                names = method_params(fn, fenv)
                if len(names) == len(generics):
                    fenv = dict(fenv)
                    fenv.update(zip(names, generics))
            if cp.method in SUMMARIZE and self.summaries_on and \
                    all(isinstance(a, Sc) for a in args) and any(is_sym(a.v) for a in args):
                return self.apply_summary(ctx, fn, args, fenv)
            return self.run(ctx, fn, args, fenv)
        # tuple-variant constructor used as a function value (`.map(RegisteredLabel::Assigned)`)
        if self_ty is not None and cp.method and self.impls.has_variant(self_ty.name, cp.method) \
                and not self.impls.is_fieldless(self_ty.name):
            return Adt(self_ty.name, cp.method, list(args))
        r = models.call(self, ctx, cp, self_ty, trait, generics, args, env)
        if r is models.NO_MODEL:
            raise Unsupported("no MIR body and no model for callee %s (self=%s trait=%s)" % (cp.raw, self_ty, trait))
        return r

    def call_fnv(self, ctx, f, args):
        if isinstance(f, FnV):
            if f.py is not None:
                return f.py(ctx, args)
            if f.captures is not None:
                # closure: first MIR argument is (a reference to) the closure environment
                fn = self.impls.closure_fn(f.path)
                a0 = f if fn.arg_types[0].startswith("{closure") else Ref(Cell(f))
                # MIR closure bodies take the call arguments unpacked after the environment
                return self.run(ctx, fn, [a0] + list(args), f.env or {})
            return self.call_path(ctx, f.path, args, f.env or {})
        raise Unsupported("call of non-function value %r" % (f,))

    # ---------------------------------------------------------------------------------- summaries
    def apply_summary(self, ctx, fn, args, env):
        """State merging for pure scalar functions (registry lookups): the MIR body is explored
        once on fresh symbolic arguments, its leaves are merged by result shape, and the merged
        leaves are instantiated at each call site.  Faithful to the MIR by construction."""
        key = (fn.index, tuple(a.ty for a in args))
        if key not in self.summaries:
            formals = [z3.BitVec("formal%d!%d" % (i, fn.index), a.bits) for i, a in enumerate(args)]

            def h(sub):
                return self.run(sub, fn, [Sc(a.ty, f) for a, f in zip(args, formals)], env)
            leaves = []
            for sub, out in self.explore(h, count=False):
                if sub is None or out[0] not in ("ok", "panic"):
                    raise Unsupported("summary of %s: %r" % (fn.name, out))
                leaves.append((z3.And(sub.pc) if sub.pc else z3.BoolVal(True), out))
            self.summaries[key] = (formals, merge_leaves(leaves))
        formals, merged = self.summaries[key]
        sub = [(f, bv(a)) for f, a in zip(formals, args)]
        conds = [z3.substitute(c, *sub) for c, _ in merged]
        i = ctx.choose_cond(conds, "summary:" + fn.name.split("::")[-1])
        out = merged[i][1]
        if out[0] == "panic":
            raise out[1]
        return subst_value(out[1], sub)

    # ---------------------------------------------------------------------------------- consts
    def eval_const(self, ctx, text, env, want_ty=None):
        text = text.strip()
        m = re.fullmatch(r"(-?\d+)_(\w+)", text)
        if m:
            return Sc(m.group(2), int(m.group(1)))
        if text in ("true", "false"):
            return Sc("bool", text == "true")
        if text == "()":
            return UNIT
        if text.startswith('"'):
            s = bytes(text[1:-1], "utf-8").decode("unicode_escape").encode("latin-1")
            return Ref(Cell(VecV([Sc("u8", b) for b in s], None, "str")))
        if text.startswith('b"'):
            s = bytes(text[2:-1], "utf-8").decode("unicode_escape").encode("latin-1")
            return Ref(Cell(VecV([Sc("u8", b) for b in s], None, "vec")))
        if text.startswith("'"):
            return Sc("char", ord(bytes(text[1:-1], "utf-8").decode("unicode_escape")))
        if text.startswith("ZeroSized: "):
            t = text[11:]
            if t.startswith("{closure@"):
                return FnV(path=t, captures=[], env=dict(env))
            return FnV(path=t, env=dict(env))
        m = re.fullmatch(r"(.+)::\{constant#0\}", text)
        if m:
            segs = m.group(1).split("::")
            key = segs[-2] + "::" + segs[-1]
            if key in self.prog.discr:
                return Sc("isize", self.prog.discr[key])
        m = re.fullmatch(r"(-?[\d.]+(?:[eE][-+]?\d+)?)(f64|f32)", text)
        if m:
            import struct
            return Sc("f64", struct.unpack("<Q", struct.pack("<d", float(m.group(1))))[0])
        # named constants: associated (`<T as Trait>::NAME`) or free (`path::NAME`)
        return self.eval_named_const(ctx, text, env)

    def eval_named_const(self, ctx, text, env):
        im = re.fullmatch(r"(?:core|std)::num::<impl (\w+)>::(MAX|MIN|BITS)", text)
        if im and im.group(1) in INT_BITS:
            ty, which = im.group(1), im.group(2)
            bits = INT_BITS[ty]
            signed = ty[0] == "i"
            if which == "BITS":
                return Sc("u32", bits)
            if which == "MAX":
                return Sc(ty, (1 << (bits - 1)) - 1 if signed else (1 << bits) - 1)
            return Sc(ty, -(1 << (bits - 1)) if signed else 0)
        pm = re.fullmatch(r"(.*)::promoted\[(\d+)\]", text)
        if pm:
            # promoted constant of a function: find that function's MIR name
            base = parse_callpath(pm.group(1))
            self_ty = subst(base.self_ty, env) if base.self_ty is not None else None
            trait = subst(base.trait, env) if base.trait is not None else None
            tgt = self.impls.resolve(base, self_ty, trait, ())
            fn = None
            if tgt is not None:
                fn = self.impls.named_consts.get("%s::promoted[%s]" % (tgt[0].name, pm.group(2)))
            if fn is None:
                raise Unsupported("promoted const %s" % text)
        elif text.startswith("<"):
            cp = parse_callpath(text)
            self_ty = subst(cp.self_ty, env)
            trait = subst(cp.trait, env) if cp.trait else None
            fn = self.impls.resolve_const(cp.method, self_ty, trait)
            if fn is None:
                raise Unsupported("associated const %s for %s" % (text, self_ty))
        else:
            name = text.split("::")[-1]
            fn = self.impls.free_const(name, text)
            if fn is None:
                if self.impls.is_struct(name) and not self.impls.struct_fields(name):
                    return Adt(name, None, [])
                raise Unsupported("named const %s" % text)
        if isinstance(fn, tuple) and fn[0] == "literal":
            return self.eval_const(ctx, fn[1], env)
        key = fn.index
        # constants are pure: evaluate once per engine, copy per use
        if key not in self.const_cache:
            self.const_cache[key] = self.run(ctx, fn, [], {})
        from values import deep_clone
        return deep_clone(self.const_cache[key])

    # ---------------------------------------------------------------------------------- executor
    def run(self, ctx, fn, args, env):
        ctx.depth += 1
        if ctx.depth > ctx.max_depth:
            ctx.max_depth = ctx.depth
        if ctx.depth > self.max_call_depth:
            ctx.depth -= 1
            raise DepthExceeded("call depth %d exceeded in %s" % (self.max_call_depth, fn.name))
        self.stats.functions.add(fn.name)
        track = fn.name.endswith("read_to_value")
        if track:
            side = ctx.side
            side["live_parse"] = side.get("live_parse", 0) + 1
            if side["live_parse"] > side.get("max_live_parse", 0):
                side["max_live_parse"] = side["live_parse"]
        fr = Frame(fn, env)
        loc = fr.locals
        for i, a in zip(fn.args, args):
            loc[i] = Cell(a)
        try:
            return self._exec(ctx, fr)
        finally:
            ctx.depth -= 1
            if track:
                ctx.side["live_parse"] -= 1

    def _cell(self, fr, n):
        c = fr.locals.get(n)
        if c is None:
            c = fr.locals[n] = Cell(UNINIT)
        return c

    # place -> Ref-like (container,key)
    def place(self, ctx, fr, p):
        k = p[0]
        if k == "local":
            return Ref(self._cell(fr, p[1]))
        if k == "deref":
            r = self.place(ctx, fr, p[1])
            v = r.get()
            if isinstance(v, Ref):
                return v
            if isinstance(v, BoxV):
                return Ref(v.cell)
            raise Unsupported("deref of %r in %s" % (v, fr.name))
        if k == "field":
            r = self.place(ctx, fr, p[1])
            v = r.get()
            ty = p[3]
            if isinstance(v, Lazy):
                v = v.node.materialize(ctx)
                r.set(v)
            if isinstance(v, (BoxV,)):
                return r        # Box.0 (Unique) .0 (NonNull): transparent
            if v is UNINIT or ty.startswith(TRANSPARENT_PREFIXES) or isinstance(v, Ref) and ty.startswith(TRANSPARENT_PREFIXES):
                return r
            if isinstance(v, (Adt, Tup, Arr)):
                if isinstance(v, Adt) and v.ty in TRANSPARENT:
                    return r
                return Ref(v.fields, p[2])
            if isinstance(v, FnV) and v.captures is not None:
                return Ref(v.captures, p[2])
            if isinstance(v, Sc) and v.ty == "i128" and False:
                return r
            raise Unsupported("field %d of %r in %s" % (p[2], v, fr.name))
        if k == "downcast":
            r = self.place(ctx, fr, p[1])
            v = r.get()
            if isinstance(v, Lazy):
                v = v.node.materialize(ctx)
                r.set(v)
            if isinstance(v, Adt) and v.variant is not None and v.variant != p[2]:
                raise Unsupported("downcast to %s of %r in %s" % (p[2], v, fr.name))
            return r
        if k == "index":
            r = self.place(ctx, fr, p[1])
            v = r.get()
            idx = self._cell(fr, p[2]).v
            return Ref(seq_elems(v), conc(idx))
        if k == "cindex":
            r = self.place(ctx, fr, p[1])
            el = seq_elems(r.get())
            return Ref(el, len(el) - p[2] if p[3] else p[2])
        raise Unsupported("place %r" % (p,))

    def operand(self, ctx, fr, op):
        k = op[0]
        if k == "move":
            r = self.place(ctx, fr, op[1])
            return r.get()
        if k == "copy":
            return copy_val(self.place(ctx, fr, op[1]).get())
        if k == "const":
            return self.eval_const(ctx, op[1], fr.env)
        if k == "fnitem":
            return FnV(path=op[1], env=dict(fr.env))
        raise Unsupported("operand %r" % (op,))

    def _exec(self, ctx, fr):
        fn = fr.fn
        bb = 0
        stats = self.stats
        while True:
            block = fn.blocks[bb]
            for st in block:
                stats.steps += 1
                k = st[0]
                if k == "assign":
                    v = self.rvalue(ctx, fr, st[2], st[1])
                    self.place(ctx, fr, st[1]).set(v)
                elif k == "nop":
                    pass
                elif k == "goto":
                    bb = st[1]
                    break
                elif k == "return":
                    c = fr.locals.get(0)
                    return c.v if c is not None else UNIT
                elif k == "switch":
                    v = self.operand(ctx, fr, st[1])
                    bb = self.switch(ctx, v, st[2], st[3], fr)
                    break
                elif k == "call":
                    args = [self.operand(ctx, fr, a) for a in st[3]]
                    fop = st[2]
                    if fop[0] == "fnitem":
                        res = self.dispatch(ctx, parse_callpath(fop[1]), args, fr.env)
                    else:
                        res = self.call_fnv(ctx, self.operand(ctx, fr, fop), args)
                    if st[1] is not None:
                        self.place(ctx, fr, st[1]).set(res)
                    tg = st[4]
                    if "return" not in tg:
                        raise Unsupported("diverging call returned: %r" % (fop,))
                    bb = tg["return"]
                    break
                elif k == "drop":
                    bb = st[2]["return"]
                    break
                elif k == "assert":
                    c = self.operand(ctx, fr, st[1])
                    ok = zbool(c) if is_sym(c.v) else bool(c.v)
                    want = st[2]
                    if ok is True or ok is False:
                        holds = (ok == want)
                    else:
                        holds = ctx.branch(ok if want else z3.Not(ok), "assert")
                    if not holds:
                        raise Panic("assert", st[3], fr.name)
                    bb = st[4]["success"]
                    break
                elif k == "unreachable":
                    raise Panic("unreachable", "MIR unreachable executed", fr.name)
                elif k == "set_discriminant":
                    raise Unsupported("SetDiscriminant")
                elif k in ("resume", "abort"):
                    raise Unsupported("unwinding executed in %s" % fr.name)
                else:
                    raise Unsupported("statement %r in %s" % (st, fr.name))
            else:
                raise Unsupported("block without terminator in %s" % fr.name)
            if stats.steps > self.max_steps:
                self.max_steps += 0
            continue

    # ---------------------------------------------------------------------------------- switch
    def switch(self, ctx, v, targets, otherwise, fr):
        if isinstance(v, Sc):
            if not is_sym(v.v):
                x = int(v.v)
                for val, bbn in targets:
                    if val == x or (v.ty != "bool" and wrap(v.ty, val) == x):
                        return bbn
                if otherwise is None:
                    raise Panic("unreachable", "switch without matching arm", fr.name)
                return otherwise
            if v.ty == "bool":
                # targets are [0: bbF] otherwise bbT (or both listed)
                t = dict(targets)
                take_true = ctx.branch(v.v, "switch-bool@" + fr.name)
                if take_true:
                    return t.get(1, otherwise)
                return t.get(0, otherwise)
            term = v.v
            bits = v.bits
            conds = [term == z3.BitVecVal(val, bits) for val, _ in targets]
            if otherwise is not None:
                conds.append(z3.And([term != z3.BitVecVal(val, bits) for val, _ in targets]) if targets else True)
            i = ctx.choose_cond(conds, "switch@" + fr.name)
            return targets[i][1] if i < len(targets) else otherwise
        raise Unsupported("switch on %r in %s" % (v, fr.name))

    # ---------------------------------------------------------------------------------- rvalues
    def rvalue(self, ctx, fr, rv, dest):
        k = rv[0]
        if k == "use":
            return self.operand(ctx, fr, rv[1])
        if k == "ref":
            return self.place(ctx, fr, rv[1])
        if k == "rawref":
            return self.place(ctx, fr, rv[1])
        if k == "discriminant":
            r = self.place(ctx, fr, rv[1])
            v = r.get()
            if isinstance(v, Lazy):
                v = v.node.materialize(ctx)
                r.set(v)
            return Sc("isize", self.discriminant_of(v))
        if k == "aggregate":
            return self.aggregate(ctx, fr, rv, dest)
        if k == "binop":
            a = self.operand(ctx, fr, rv[2])
            b = self.operand(ctx, fr, rv[3])
            return binop(rv[1], a, b)
        if k == "unop":
            a = self.operand(ctx, fr, rv[2])
            return unop(rv[1], a)
        if k == "cast":
            return self.cast(ctx, fr, self.operand(ctx, fr, rv[1]), rv[2], rv[3])
        if k == "len":
            v = self.place(ctx, fr, rv[1]).get()
            return models.seq_len(ctx, v)
        if k == "repeat":
            # `[x; N]` with a literal or named-constant count
            cnt = rv[2].strip()
            m = re.match(r"^(?:const )?(\d+)(?:_usize)?$", cnt)
            if m:
                n = int(m.group(1))
            else:
                c = self.eval_const(ctx, fr, cnt if cnt.startswith("const ") else "const " + cnt) \
                    if hasattr(self, "eval_const") else None
                if not isinstance(c, Sc) or is_sym(c.v):
                    raise Unsupported("repeat rvalue with count %r" % (cnt,))
                n = int(c.v)
            x = self.operand(ctx, fr, rv[1])
            return Arr([copy_val(x) for _ in range(n)])
        raise Unsupported("rvalue %r" % (rv,))

    def discriminant_of(self, v):
        if isinstance(v, Sc):
            return v.v          # fieldless enum kept as its discriminant value
        if isinstance(v, Adt):
            if v.variant is None:
                return 0
            return self.impls.variant_discr(v.ty, v.variant)
        raise Unsupported("discriminant of %r" % (v,))

    def aggregate(self, ctx, fr, rv, dest):
        kind = rv[1]
        if kind == "tuple":
            return Tup([self.operand(ctx, fr, o) for o in rv[3]])
        if kind == "array":
            return Arr([self.operand(ctx, fr, o) for o in rv[3]])
        if kind == "closure":
            return FnV(path=rv[2], captures=[self.operand(ctx, fr, o) for o in rv[3]], env=dict(fr.env))
        path = rv[2]
        if kind == "adt_named":
            ty = parse_type(path)
            order = self.impls.struct_fields(ty.name)
            vals = {n: self.operand(ctx, fr, o) for n, o in rv[3]}
            if order is None:
                raise Unsupported("unknown struct %s" % path)
            return Adt(ty.name, None, [vals[n] for n in order])
        # enum variant or tuple struct:  Path::Variant(args) / Path(args) / Path::Variant
        ops = [self.operand(ctx, fr, o) for o in rv[3]]
        ety, variant = self.impls.split_variant(path)
        if variant is None:
            if kind == "adt_unit" and self.impls.is_struct(ety):
                return Adt(ety, None, [])
            if self.impls.is_struct(ety):
                return Adt(ety, None, ops)
            # bare variant name (e.g. `Text(move _10)`): resolve through the destination type
            dty = self.type_of_place(fr, dest)
            if dty is not None and self.impls.has_variant(dty.name, ety):
                ety, variant = dty.name, ety
            else:
                raise Unsupported("aggregate %r (dest type %s)" % (path, dty))
        if self.impls.is_fieldless(ety):
            return Sc("isize", self.impls.variant_discr(ety, variant), enum=ety)
        return Adt(ety, variant, ops)

    def type_of_place(self, fr, p):
        if p is None:
            return None
        if p[0] == "local":
            t = fr.fn.locals.get(p[1])
            return subst(parse_type(t), fr.env) if t else None
        if p[0] == "field":
            return subst(parse_type(p[3]), fr.env)
        return None

    def cast(self, ctx, fr, v, ty, kind):
        if kind == "IntToInt":
            if ty not in INT_BITS:
                raise Unsupported("IntToInt to %s" % ty)
            return int_cast(v, ty)
        if kind.startswith("PointerCoercion") or kind in ("PtrToPtr", "Transmute"):
            return v
        if kind == "FloatToInt" and isinstance(v, Sc) and v.ty == "f64" and ty in INT_BITS:
            # Rust `as`: truncation toward zero, saturating at the target's bounds, NaN -> 0
            bits, signed = INT_BITS[ty], ty.startswith("i")
            fa = z3.fpBVToFP(bv64(v), z3.Float64())
            srt = z3.BitVecSort(bits)
            if signed:
                lo, hi, conv = -(1 << (bits - 1)), (1 << (bits - 1)) - 1, z3.fpToSBV(z3.RTZ(), fa, srt)
                below = z3.fpLT(fa, z3.FPVal(float(lo), z3.Float64()))         # -2^(bits-1) is exact
            else:
                lo, hi, conv = 0, (1 << bits) - 1, z3.fpToUBV(z3.RTZ(), fa, srt)
                below = z3.fpLT(fa, z3.FPVal(0.0, z3.Float64()))
            above = z3.fpGEQ(fa, z3.FPVal(float(hi + 1), z3.Float64()))       # 2^k is exact
            r = z3.If(z3.fpIsNaN(fa), z3.BitVecVal(0, bits),
                      z3.If(below, z3.BitVecVal(lo, bits), z3.If(above, z3.BitVecVal(hi, bits), conv)))
            r = z3.simplify(r)
            return Sc(ty, r.as_signed_long() if (z3.is_bv_value(r) and signed) else
                      (r.as_long() if z3.is_bv_value(r) else r))
        if kind == "IntToFloat" and isinstance(v, Sc) and v.ty in INT_BITS and ty == "f64":
            # round to nearest, ties to even (exact below 2^53)
            bits = INT_BITS[v.ty]
            x = v.v if is_sym(v.v) else z3.BitVecVal(int(v.v), bits)
            f = z3.fpSignedToFP(z3.RNE(), x, z3.Float64()) if v.ty.startswith("i") else \
                z3.fpUnsignedToFP(z3.RNE(), x, z3.Float64())
            if not is_sym(v.v):
                import struct as _st
                return Sc("f64", _st.unpack("<Q", _st.pack("<d", float(int(v.v))))[0])
            # a fresh bit pattern constrained to denote the converted value (fpToIEEEBV is not total
            # on NaN, which an integer never converts to)
            b = ctx.fresh_bv("i2f", 64)
            ctx.assume(z3.fpBVToFP(b, z3.Float64()) == f)
            return Sc("f64", b)
        raise Unsupported("cast kind %s" % kind)


SUMMARIZE = {"from_i64", "is_private"}

_PARAM_RE = re.compile(r"(?<![\w:])([A-Z])(?![\w:<])")
_MP_CACHE = {}


def method_params(fn, env):
    key = (fn.index, tuple(sorted(env)))
    if key not in _MP_CACHE:
        names = []
        for t in list(fn.arg_types) + [fn.ret_type or ""]:
            for m in _PARAM_RE.finditer(t):
                n = m.group(1)
                if n not in names and n not in env:
                    names.append(n)
        _MP_CACHE[key] = names
    return _MP_CACHE[key]


def unresolved(t):
    if t.name.startswith("assoc:") or (len(t.name) == 1 and t.name.isupper()):
        return True
    return any(unresolved(a) for a in t.args)


def value_shape(v):
    if isinstance(v, Sc):
        return ("sc", v.ty, v.enum)
    if isinstance(v, Adt):
        return ("adt", v.ty, v.variant, tuple(value_shape(f) for f in v.fields))
    if isinstance(v, Tup):
        return ("tup", tuple(value_shape(f) for f in v.fields))
    if v is UNIT:
        return ("unit",)
    return ("other", id(v))


def merge_values(c, a, b):
    """If(c, a, b) over two values of identical shape."""
    if isinstance(a, Sc):
        if not is_sym(a.v) and not is_sym(b.v) and a.v == b.v:
            return a
        if a.ty == "bool":
            return Sc("bool", z3.If(c, zbool(a), zbool(b)))
        return Sc(a.ty, z3.If(c, bv(a), bv(b)), a.enum)
    if isinstance(a, Adt):
        return Adt(a.ty, a.variant, [merge_values(c, x, y) for x, y in zip(a.fields, b.fields)])
    if isinstance(a, Tup):
        return Tup([merge_values(c, x, y) for x, y in zip(a.fields, b.fields)])
    return a


def merge_leaves(leaves):
    groups = {}
    order = []
    for cond, out in leaves:
        key = ("panic", str(out[1])) if out[0] == "panic" else ("ok", value_shape(out[1]))
        if key not in groups:
            groups[key] = (cond, out)
            order.append(key)
        else:
            c0, o0 = groups[key]
            if out[0] == "ok":
                groups[key] = (z3.Or(c0, cond), ("ok", merge_values(cond, out[1], o0[1])))
            else:
                groups[key] = (z3.Or(c0, cond), o0)
    return [(z3.simplify(groups[k][0]), groups[k][1]) for k in order]


def subst_value(v, sub):
    if isinstance(v, Sc):
        if is_sym(v.v):
            return Sc(v.ty, z3.simplify(z3.substitute(v.v, *sub)), v.enum)
        return v
    if isinstance(v, Adt):
        return Adt(v.ty, v.variant, [subst_value(f, sub) for f in v.fields])
    if isinstance(v, Tup):
        return Tup([subst_value(f, sub) for f in v.fields])
    return v


TRANSPARENT_PREFIXES = tuple("core::ptr::" + x for x in ("Unique", "NonNull")) + \
    tuple("core::mem::" + x for x in ("MaybeUninit", "ManuallyDrop", "MaybeDangling")) + \
    ("std::ptr::Unique", "std::ptr::NonNull", "std::mem::MaybeUninit", "std::mem::ManuallyDrop")


def utf8_valid(bs):
    """z3 condition: the byte terms form well-formed UTF-8 (RFC 3629).  Exact for <= 5 bytes;
    longer strings are restricted to ASCII (stated bound)."""
    n = len(bs)
    if n == 0:
        return True
    if n > 5:
        return z3.And([z3.ULT(b, 0x80) for b in bs])

    def rng(b, lo, hi):
        return z3.And(z3.UGE(b, lo), z3.ULE(b, hi))

    def seqs(i):
        """alternatives for a well-formed suffix starting at byte i"""
        if i == n:
            return [True]
        alts = []
        b = bs[i]
        for rest in seqs(i + 1):
            alts.append(z3.And(z3.ULT(b, 0x80), rest))
        if i + 2 <= n:
            for rest in seqs(i + 2):
                alts.append(z3.And(rng(b, 0xC2, 0xDF), rng(bs[i + 1], 0x80, 0xBF), rest))
        if i + 3 <= n:
            c1, c2 = bs[i + 1], bs[i + 2]
            for rest in seqs(i + 3):
                alts.append(z3.And(z3.Or(z3.And(b == 0xE0, rng(c1, 0xA0, 0xBF)),
                                         z3.And(z3.Or(rng(b, 0xE1, 0xEC), rng(b, 0xEE, 0xEF)), rng(c1, 0x80, 0xBF)),
                                         z3.And(b == 0xED, rng(c1, 0x80, 0x9F))),
                                   rng(c2, 0x80, 0xBF), rest))
        if i + 4 <= n:
            c1, c2, c3 = bs[i + 1], bs[i + 2], bs[i + 3]
            for rest in seqs(i + 4):
                alts.append(z3.And(z3.Or(z3.And(b == 0xF0, rng(c1, 0x90, 0xBF)),
                                         z3.And(rng(b, 0xF1, 0xF3), rng(c1, 0x80, 0xBF)),
                                         z3.And(b == 0xF4, rng(c1, 0x80, 0x8F))),
                                   rng(c2, 0x80, 0xBF), rng(c3, 0x80, 0xBF), rest))
        return alts
    return z3.Or(seqs(0))


def conc(sc):
    if isinstance(sc, Sc) and not is_sym(sc.v):
        return int(sc.v)
    raise Unsupported("symbolic index %r" % (sc,))


def seq_elems(v):
    if isinstance(v, (VecV,)):
        if v.elems is None:
            raise Unsupported("indexing an opaque byte string")
        return v.elems
    if isinstance(v, Arr):
        return v.fields
    raise Unsupported("indexing %r" % (v,))


def int_cast(v, ty):
    if not isinstance(v, Sc):
        raise Unsupported("int cast of %r" % (v,))
    if v.ty == "bool":
        if is_sym(v.v):
            return Sc(ty, z3.If(v.v, z3.BitVecVal(1, INT_BITS[ty]), z3.BitVecVal(0, INT_BITS[ty])))
        return Sc(ty, int(bool(v.v)))
    if not is_sym(v.v):
        return Sc(ty, wrap(ty, int(v.v)))
    fb, tb = v.bits, INT_BITS[ty]
    t = v.v
    if tb < fb:
        t = z3.Extract(tb - 1, 0, t)
    elif tb > fb:
        t = z3.SignExt(tb - fb, t) if v.signed else z3.ZeroExt(tb - fb, t)
    return Sc(ty, t)


def unop(op, a):
    if op == "PtrMetadata":
        return models.seq_len(None, a)
    if op == "Not":
        if a.ty == "bool":
            return Sc("bool", z3.Not(a.v) if is_sym(a.v) else (not a.v))
        return Sc(a.ty, ~a.v if is_sym(a.v) else wrap(a.ty, ~int(a.v)))
    if op == "Neg":
        return Sc(a.ty, -a.v if is_sym(a.v) else wrap(a.ty, -int(a.v)))
    raise Unsupported("unop " + op)


def binop(op, a, b):
    if not (isinstance(a, Sc) and isinstance(b, Sc)):
        raise Unsupported("binop %s on %r, %r" % (op, a, b))
    if a.ty == "bool" and b.ty == "bool":
        if not is_sym(a.v) and not is_sym(b.v):
            f = {"Eq": lambda x, y: x == y, "Ne": lambda x, y: x != y, "BitAnd": lambda x, y: x and y,
                 "BitOr": lambda x, y: x or y, "BitXor": lambda x, y: x != y}[op]
            return Sc("bool", bool(f(bool(a.v), bool(b.v))))
        x, y = zbool(a), zbool(b)
        f = {"Eq": lambda: x == y, "Ne": lambda: x != y, "BitAnd": lambda: z3.And(x, y),
             "BitOr": lambda: z3.Or(x, y), "BitXor": lambda: z3.Xor(x, y)}[op]
        return Sc("bool", f())
    if a.ty == "f64":
        fa, fb_ = z3.fpBVToFP(bv64(a), z3.Float64()), z3.fpBVToFP(bv64(b), z3.Float64())
        f = {"Eq": z3.fpEQ, "Ne": z3.fpNEQ, "Lt": z3.fpLT, "Le": z3.fpLEQ, "Gt": z3.fpGT, "Ge": z3.fpGEQ}[op]
        return Sc("bool", f(fa, fb_))
    ty = a.ty
    signed = a.signed
    if not is_sym(a.v) and not is_sym(b.v):
        x, y = int(a.v), int(b.v)
        if op in ("Eq", "Ne", "Lt", "Le", "Gt", "Ge"):
            r = {"Eq": x == y, "Ne": x != y, "Lt": x < y, "Le": x <= y, "Gt": x > y, "Ge": x >= y}[op]
            return Sc("bool", r)
        if op in ("Add", "Sub", "Mul", "AddUnchecked", "SubUnchecked", "MulUnchecked"):
            r = {"A": x + y, "S": x - y, "M": x * y}[op[0]]
            return Sc(ty, wrap(ty, r))
        if op in ("AddWithOverflow", "SubWithOverflow", "MulWithOverflow"):
            r = {"A": x + y, "S": x - y, "M": x * y}[op[0]]
            w = wrap(ty, r)
            return Tup([Sc(ty, w), Sc("bool", w != r)])
        if op in ("BitAnd", "BitOr", "BitXor"):
            r = {"BitAnd": x & y, "BitOr": x | y, "BitXor": x ^ y}[op]
            return Sc(ty, wrap(ty, r))
        if op in ("Shl", "ShlUnchecked"):
            return Sc(ty, wrap(ty, x << (y % a.bits)))
        if op in ("Shr", "ShrUnchecked"):
            return Sc(ty, wrap(ty, x >> (y % a.bits)))
        if op == "Cmp":
            return Sc("i8", -1 if x < y else (1 if x > y else 0), enum="Ordering")
        if op in ("Div", "Rem"):
            if y == 0:
                raise Panic("arith", "division by zero")
            q = abs(x) // abs(y) * (1 if (x < 0) == (y < 0) else -1)
            return Sc(ty, wrap(ty, q if op == "Div" else x - q * y))
        raise Unsupported("binop " + op)
    x, y = bv(a), bv(b)
    if y.size() != x.size():
        y = z3.ZeroExt(x.size() - y.size(), y) if y.size() < x.size() else z3.Extract(x.size() - 1, 0, y)
    if op == "Eq":
        return Sc("bool", x == y)
    if op == "Ne":
        return Sc("bool", x != y)
    if op in ("Lt", "Le", "Gt", "Ge"):
        f = {("Lt", True): lambda: x < y, ("Le", True): lambda: x <= y, ("Gt", True): lambda: x > y,
             ("Ge", True): lambda: x >= y, ("Lt", False): lambda: z3.ULT(x, y),
             ("Le", False): lambda: z3.ULE(x, y), ("Gt", False): lambda: z3.UGT(x, y),
             ("Ge", False): lambda: z3.UGE(x, y)}[(op, signed)]
        return Sc("bool", f())
    if op in ("Add", "AddUnchecked"):
        return Sc(ty, x + y)
    if op in ("Sub", "SubUnchecked"):
        return Sc(ty, x - y)
    if op in ("Mul", "MulUnchecked"):
        return Sc(ty, x * y)
    if op == "AddWithOverflow":
        ovf = z3.Not(z3.BVAddNoOverflow(x, y, signed)) if not signed else \
            z3.Or(z3.Not(z3.BVAddNoOverflow(x, y, True)), z3.Not(z3.BVAddNoUnderflow(x, y)))
        return Tup([Sc(ty, x + y), Sc("bool", ovf)])
    if op == "SubWithOverflow":
        ovf = z3.Not(z3.BVSubNoUnderflow(x, y, signed)) if not signed else \
            z3.Or(z3.Not(z3.BVSubNoOverflow(x, y)), z3.Not(z3.BVSubNoUnderflow(x, y, True)))
        return Tup([Sc(ty, x - y), Sc("bool", ovf)])
    if op == "MulWithOverflow":
        ovf = z3.Or(z3.Not(z3.BVMulNoOverflow(x, y, signed)), z3.Not(z3.BVMulNoUnderflow(x, y)))
        return Tup([Sc(ty, x * y), Sc("bool", ovf)])
    if op == "BitAnd":
        return Sc(ty, x & y)
    if op == "BitOr":
        return Sc(ty, x | y)
    if op == "BitXor":
        return Sc(ty, x ^ y)
    if op == "Cmp":
        lt = (x < y) if signed else z3.ULT(x, y)
        return Sc("i8", z3.If(lt, z3.BitVecVal(-1, 8), z3.If(x == y, z3.BitVecVal(0, 8), z3.BitVecVal(1, 8))),
                  enum="Ordering")
    if op in ("Shl", "ShlUnchecked", "Shr", "ShrUnchecked"):
        # MIR shifts mask the amount to the width of the left operand (the overflow check, when
        # enabled, is a separate assert in the MIR)
        amt = y & z3.BitVecVal(x.size() - 1, x.size())
        if op.startswith("Shl"):
            return Sc(ty, x << amt)
        return Sc(ty, (x >> amt) if signed else z3.LShR(x, amt))
    raise Unsupported("symbolic binop " + op)


def bv64(sc):
    return sc.v if is_sym(sc.v) else z3.BitVecVal(sc.v, 64)
