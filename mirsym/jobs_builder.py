"""C19 supplement in Engine M: builder call histories with a *symbolic choice of method at every
step, adders included* (the Kani harnesses fix the positions of adders), repeated set insertion, and
direct comparison of private fields (COSE_KDF_Context).  The shadow model below is written from
the documented effect of each call (doc comments / property text), not from the builders' code."""
import z3

import concrete
import hcommon
import models
import refdec
from hcommon import JobResult
from interp import Panic, Unsupported
from jobs_encode import mk_struct
from values import (UNIT, Adt, Arr, BoxV, Cell, FnV, Lazy, Ref, Sc, SetV, Tup, VecV, bv, deep_clone, is_sym)


def none():
    return Adt("Option", "None", [])


def some(x):
    return Adt("Option", "Some", [x])


def vec(xs=None):
    return VecV(list(xs or []), None, "vec")


def any_bytes(ctx, name):
    """empty or non-empty byte vector (opaque)"""
    if ctx.choose(2, "empty@" + name) == 0:
        return vec()
    return ctx.fresh_opaque(name, "vec", nonempty=True)


def any_text(ctx, name):
    return ctx.fresh_bytes(name, "concrete", 1, "string")


def any_enum(ctx, tables, reg, name):
    i = ctx.fresh_bv(name, 64)
    nums = sorted(tables[reg]["rows"].values())
    ctx.assume(z3.Or([i == z3.BitVecVal(n, 64) for n in nums]))
    return Sc("isize", i, enum=reg)


def leaf_value(ctx, name):
    k = ctx.choose(2, "value@" + name)
    if k == 0:
        return Adt("Value", "Null", [])
    return Adt("Value", "Integer", [Adt("Integer", None, [Sc("i128", z3.SignExt(64, ctx.fresh_bv(name, 64)))])])


def empty_header(I):
    return mk_struct(I, "Header", alg=none(), crit=vec(), content_type=none(), key_id=vec(), iv=vec(),
                     partial_iv=vec(), counter_signatures=vec(), rest=vec())


def small_header(ctx, I, name):
    h = empty_header(I)
    if ctx.choose(2, "hdr@" + name) == 1:
        order = I.struct_fields("Header")
        h.fields[order.index("key_id")] = ctx.fresh_opaque(name + ".kid", "vec", nonempty=True)
    return h


def protected_of(I, h):
    return mk_struct(I, "ProtectedHeader", original_data=none(), header=h)


def small_sig(ctx, I, name):
    return mk_struct(I, "CoseSignature", protected=protected_of(I, small_header(ctx, I, name + ".p")),
                     unprotected=empty_header(I), signature=any_bytes(ctx, name + ".sig"))


def small_recipient(ctx, I, name):
    return mk_struct(I, "CoseRecipient", protected=protected_of(I, small_header(ctx, I, name + ".p")),
                     unprotected=empty_header(I), ciphertext=none(), recipients=vec())


class Model:
    """field name -> value of the target struct, updated by documented effects"""

    def __init__(self, I, ty, fields):
        self.I, self.ty, self.f = I, ty, fields

    def value(self):
        return mk_struct(self.I, self.ty, **self.f)


def header_spec(ctx, eng, tables):
    I = eng.impls
    m = Model(I, "Header", dict(alg=none(), crit=vec(), content_type=none(), key_id=vec(), iv=vec(),
                                partial_iv=vec(), counter_signatures=vec(), rest=vec()))

    def algorithm(n):
        a = any_enum(ctx, tables, "Algorithm", n)
        m.f["alg"] = some(Adt("RegisteredLabelWithPrivate", "Assigned", [a]))
        return [a]

    def add_critical(n):
        p = any_enum(ctx, tables, "HeaderParameter", n)
        m.f["crit"].elems.append(Adt("RegisteredLabel", "Assigned", [p]))
        return [p]

    def add_critical_label(n):
        lab = Adt("RegisteredLabel", "Text", [any_text(ctx, n)])
        m.f["crit"].elems.append(deep_clone(lab))
        return [lab]

    def content_format(n):
        c = any_enum(ctx, tables, "CoapContentFormat", n)
        m.f["content_type"] = some(Adt("RegisteredLabel", "Assigned", [c]))
        return [c]

    def content_type(n):
        t = any_text(ctx, n)
        m.f["content_type"] = some(Adt("RegisteredLabel", "Text", [deep_clone(t)]))
        return [t]

    def key_id(n):
        b = any_bytes(ctx, n)
        m.f["key_id"] = deep_clone(b)
        return [b]

    def iv(n):
        b = any_bytes(ctx, n)
        m.f["iv"] = deep_clone(b)
        m.f["partial_iv"] = vec()            # "Set the IV, and clear any partial IV already set"
        return [b]

    def partial_iv(n):
        b = any_bytes(ctx, n)
        m.f["partial_iv"] = deep_clone(b)
        m.f["iv"] = vec()
        return [b]

    def add_counter_signature(n):
        s = small_sig(ctx, I, n)
        m.f["counter_signatures"].elems.append(deep_clone(s))
        return [s]

    def value(n):
        lab = ctx.fresh_bv(n + ".label", 64)
        v = leaf_value(ctx, n)
        refused = ctx.branch(z3.And(lab >= 1, lab <= 7), "reserved-label")
        if not refused:
            m.f["rest"].elems.append(Tup([Adt("Label", "Int", [Sc("i64", lab)]), deep_clone(v)]))
        return [Sc("i64", lab), v], refused

    def text_value(n):
        t, v = any_text(ctx, n), leaf_value(ctx, n)
        m.f["rest"].elems.append(Tup([Adt("Label", "Text", [deep_clone(t)]), deep_clone(v)]))
        return [t, v]
    return "HeaderBuilder", m, dict(algorithm=algorithm, add_critical=add_critical, add_critical_label=add_critical_label,
                                    content_format=content_format, content_type=content_type, key_id=key_id, iv=iv,
                                    partial_iv=partial_iv, add_counter_signature=add_counter_signature, value=value,
                                    text_value=text_value)


def key_spec(ctx, eng, tables):
    I = eng.impls
    m = Model(I, "CoseKey", dict(kty=Adt("RegisteredLabel", "Assigned", [Sc("isize", 0, enum="KeyType")]), key_id=vec(),
                                 alg=none(), key_ops=SetV([]), base_iv=vec(), params=vec()))

    def kty(n):
        t = Adt("RegisteredLabel", "Text", [any_text(ctx, n)])
        m.f["kty"] = deep_clone(t)
        return [t]

    def key_type(n):
        k = any_enum(ctx, tables, "KeyType", n)
        m.f["kty"] = Adt("RegisteredLabel", "Assigned", [k])
        return [k]

    def key_id(n):
        b = any_bytes(ctx, n)
        m.f["key_id"] = deep_clone(b)
        return [b]

    def base_iv(n):
        b = any_bytes(ctx, n)
        m.f["base_iv"] = deep_clone(b)
        return [b]

    def algorithm(n):
        a = any_enum(ctx, tables, "Algorithm", n)
        m.f["alg"] = some(Adt("RegisteredLabelWithPrivate", "Assigned", [a]))
        return [a]

    def add_key_op(n):
        o = any_enum(ctx, tables, "KeyOperation", n)
        op = Adt("RegisteredLabel", "Assigned", [o])
        present = False
        for e in m.f["key_ops"].elems:
            if ctx.branch(bv(e.fields[0]) == bv(o), "same-op"):
                present = True
                break
        if not present:
            m.f["key_ops"].elems.append(op)            # a set: compared as a set
        return [o]

    def param(n):
        lab = ctx.fresh_bv(n + ".label", 64)
        v = leaf_value(ctx, n)
        refused = ctx.branch(z3.And(lab >= 0, lab <= 5), "reserved-label")   # common key parameters 0..5
        if not refused:
            m.f["params"].elems.append(Tup([Adt("Label", "Int", [Sc("i64", lab)]), deep_clone(v)]))
        return [Sc("i64", lab), v], refused
    return "CoseKeyBuilder", m, dict(kty=kty, key_type=key_type, key_id=key_id, base_iv=base_iv, algorithm=algorithm,
                                     add_key_op=add_key_op, param=param)


def claims_spec(ctx, eng, tables):
    I = eng.impls
    m = Model(I, "ClaimsSet", dict(issuer=none(), subject=none(), audience=none(), expiration_time=none(),
                                   not_before=none(), issued_at=none(), cwt_id=none(), rest=vec()))

    def text_setter(field):
        def f(n):
            t = any_text(ctx, n)
            m.f[field] = some(deep_clone(t))
            return [t]
        return f

    def ts_setter(field):
        def f(n):
            t = Adt("Timestamp", "WholeSeconds", [Sc("i64", ctx.fresh_bv(n, 64))])
            m.f[field] = some(deep_clone(t))
            return [t]
        return f

    def cwt_id(n):
        b = any_bytes(ctx, n)
        m.f["cwt_id"] = some(deep_clone(b))
        return [b]

    def claim(n):
        c = any_enum(ctx, tables, "CwtClaimName", n)
        v = leaf_value(ctx, n)
        refused = ctx.branch(z3.And(bv(c) >= 1, bv(c) <= 7), "reserved-claim")
        if not refused:
            m.f["rest"].elems.append(Tup([Adt("RegisteredLabelWithPrivate", "Assigned", [c]), deep_clone(v)]))
        return [c, v], refused

    def text_claim(n):
        t, v = any_text(ctx, n), leaf_value(ctx, n)
        m.f["rest"].elems.append(Tup([Adt("RegisteredLabelWithPrivate", "Text", [deep_clone(t)]), deep_clone(v)]))
        return [t, v]

    def private_claim(n):
        i = ctx.fresh_bv(n + ".id", 64)
        v = leaf_value(ctx, n)
        refused = ctx.branch(i >= z3.BitVecVal(-65536, 64), "non-private-id")
        if not refused:
            m.f["rest"].elems.append(Tup([Adt("RegisteredLabelWithPrivate", "PrivateUse", [Sc("i64", i)]), deep_clone(v)]))
        return [Sc("i64", i), v], refused
    return "cwt::ClaimsSetBuilder", m, dict(issuer=text_setter("issuer"), subject=text_setter("subject"),
                                            audience=text_setter("audience"), expiration_time=ts_setter("expiration_time"),
                                            not_before=ts_setter("not_before"), issued_at=ts_setter("issued_at"),
                                            cwt_id=cwt_id, claim=claim, text_claim=text_claim, private_claim=private_claim)


def message_spec(tname, builder, fields, lists):
    """Sign / Sign1 / Mac / Mac0 / Encrypt / Encrypt0 / Recipient / Signature builders"""
    def spec(ctx, eng, tables):
        I = eng.impls
        init = dict(protected=protected_of(I, empty_header(I)), unprotected=empty_header(I))
        for f, kind in fields.items():
            init[f] = none() if kind == "opt" else vec()
        for f in lists:
            init[f] = vec()
        m = Model(I, tname, init)
        meths = {}

        def protected(n):
            h = small_header(ctx, I, n)
            m.f["protected"] = protected_of(I, deep_clone(h))       # retained bytes are discarded
            return [h]

        def unprotected(n):
            h = small_header(ctx, I, n)
            m.f["unprotected"] = deep_clone(h)
            return [h]
        meths["protected"], meths["unprotected"] = protected, unprotected
        for f, kind in fields.items():
            def setter(n, f=f, kind=kind):
                b = any_bytes(ctx, n)
                m.f[f] = some(deep_clone(b)) if kind == "opt" else deep_clone(b)
                return [b]
            meths[f] = setter
        for f, (meth, maker) in lists.items():
            def adder(n, f=f, maker=maker):
                x = maker(ctx, I, n)
                m.f[f].elems.append(deep_clone(x))
                return [x]
            meths[meth] = adder
        return builder, m, meths
    return spec


def party_spec(ctx, eng, tables):
    I = eng.impls
    m = Model(I, "PartyInfo", dict(identity=none(), nonce=none(), other=none()))

    def identity(n):
        b = any_bytes(ctx, n)
        m.f["identity"] = some(deep_clone(b))
        return [b]

    def other(n):
        b = any_bytes(ctx, n)
        m.f["other"] = some(deep_clone(b))
        return [b]

    def nonce(n):
        if ctx.choose(2, "nonce-kind@" + n) == 0:
            x = Adt("Nonce", "Integer", [Sc("i64", ctx.fresh_bv(n, 64))])
        else:
            x = Adt("Nonce", "Bytes", [any_bytes(ctx, n)])
        m.f["nonce"] = some(deep_clone(x))
        return [x]
    return "PartyInfoBuilder", m, dict(identity=identity, nonce=nonce, other=other)


def supp_spec(ctx, eng, tables):
    I = eng.impls
    m = Model(I, "SuppPubInfo", dict(key_data_length=Sc("u64", 0), protected=protected_of(I, empty_header(I)), other=none()))

    def key_data_length(n):
        x = Sc("u64", ctx.fresh_bv(n, 64))
        m.f["key_data_length"] = x
        return [x]

    def protected(n):
        h = small_header(ctx, I, n)
        m.f["protected"] = protected_of(I, deep_clone(h))
        return [h]

    def other(n):
        b = any_bytes(ctx, n)
        m.f["other"] = some(deep_clone(b))
        return [b]
    return "SuppPubInfoBuilder", m, dict(key_data_length=key_data_length, protected=protected, other=other)


def kdf_spec(ctx, eng, tables):
    I = eng.impls
    party = lambda: mk_struct(I, "PartyInfo", identity=none(), nonce=none(), other=none())
    m = Model(I, "CoseKdfContext", dict(
        algorithm_id=Adt("RegisteredLabelWithPrivate", "Assigned", [Sc("isize", 0, enum="Algorithm")]),
        party_u_info=party(), party_v_info=party(),
        supp_pub_info=mk_struct(I, "SuppPubInfo", key_data_length=Sc("u64", 0), protected=protected_of(I, empty_header(I)), other=none()),
        supp_priv_info=vec()))

    def algorithm(n):
        a = any_enum(ctx, tables, "Algorithm", n)
        m.f["algorithm_id"] = Adt("RegisteredLabelWithPrivate", "Assigned", [a])
        return [a]

    def party_setter(field):
        def f(n):
            p = mk_struct(I, "PartyInfo", identity=some(ctx.fresh_opaque(n, "vec")), nonce=none(), other=none())
            m.f[field] = deep_clone(p)
            return [p]
        return f

    def supp_pub_info(n):
        s = mk_struct(I, "SuppPubInfo", key_data_length=Sc("u64", ctx.fresh_bv(n, 64)),
                      protected=protected_of(I, empty_header(I)), other=none())
        m.f["supp_pub_info"] = deep_clone(s)
        return [s]

    def add_supp_priv_info(n):
        b = any_bytes(ctx, n)
        m.f["supp_priv_info"].elems.append(deep_clone(b))
        return [b]
    return "CoseKdfContextBuilder", m, dict(algorithm=algorithm, party_u_info=party_setter("party_u_info"),
                                            party_v_info=party_setter("party_v_info"), supp_pub_info=supp_pub_info,
                                            add_supp_priv_info=add_supp_priv_info)


SPECS = {
    "Header": header_spec, "CoseKey": key_spec, "ClaimsSet": claims_spec, "PartyInfo": party_spec,
    "SuppPubInfo": supp_spec, "CoseKdfContext": kdf_spec,
    "CoseSignature": message_spec("CoseSignature", "CoseSignatureBuilder", {"signature": "vec"}, {}),
    "CoseSign1": message_spec("CoseSign1", "CoseSign1Builder", {"signature": "vec", "payload": "opt"}, {}),
    "CoseSign": message_spec("CoseSign", "CoseSignBuilder", {"payload": "opt"}, {"signatures": ("add_signature", small_sig)}),
    "CoseMac0": message_spec("CoseMac0", "CoseMac0Builder", {"tag": "vec", "payload": "opt"}, {}),
    "CoseMac": message_spec("CoseMac", "CoseMacBuilder", {"tag": "vec", "payload": "opt"},
                            {"recipients": ("add_recipient", small_recipient)}),
    "CoseEncrypt0": message_spec("CoseEncrypt0", "CoseEncrypt0Builder", {"ciphertext": "opt"}, {}),
    "CoseEncrypt": message_spec("CoseEncrypt", "CoseEncryptBuilder", {"ciphertext": "opt"},
                                {"recipients": ("add_recipient", small_recipient)}),
    "CoseRecipient": message_spec("CoseRecipient", "CoseRecipientBuilder", {"ciphertext": "opt"},
                                  {"recipients": ("add_recipient", small_recipient)}),
}


def arg_spec(I, model, v, reg):
    """Concrete textual form of a call argument for the native replayer (see replay/src/builder.rs)."""
    ev = lambda t: concrete._ev(model, t) if is_sym(t) else int(t)

    def hx(b):
        return concrete.seq_to_bytes(model, b, registry=reg).hex() or "-"
    if isinstance(v, Sc):
        n = ev(v.v)
        if v.ty == "u64":
            return "u%d" % (n & ((1 << 64) - 1))
        return "i%d" % concrete.signed(n, 64)
    if isinstance(v, VecV):
        return ("t" + (hx(v) if hx(v) != "-" else "")) if v.kind == "string" else hx(v)
    if isinstance(v, Adt):
        f = lambda n: v.fields[I.struct_fields(v.ty).index(n)]
        if v.ty == "Value":
            return "n" if v.variant == "Null" else "v%d" % concrete.signed(ev(v.fields[0].fields[0].v), 128)
        if v.ty == "Header":
            return "h" + hx(f("key_id"))
        if v.ty == "CoseSignature":
            ph = f("protected")
            hdr = ph.fields[I.struct_fields("ProtectedHeader").index("header")]
            return arg_spec(I, model, hdr, reg) + "," + hx(f("signature"))
        if v.ty == "CoseRecipient":
            ph = f("protected")
            return arg_spec(I, model, ph.fields[I.struct_fields("ProtectedHeader").index("header")], reg)
        if v.ty in ("RegisteredLabel", "RegisteredLabelWithPrivate"):
            return arg_spec(I, model, v.fields[0], reg)
        if v.ty == "Nonce":
            return ("ni%d" % concrete.signed(ev(v.fields[0].v), 64)) if v.variant == "Integer" else "nb" + hx(v.fields[0]).replace("-", "")
        if v.ty == "Timestamp":
            return "i%d" % concrete.signed(ev(v.fields[0].v), 64)
        if v.ty == "PartyInfo":
            return hx(f("identity").fields[0])
        if v.ty == "SuppPubInfo":
            return "u%d" % (ev(f("key_data_length").v) & ((1 << 64) - 1))
    raise Unsupported("no replay form for argument %r" % (v,))


def builder_job(eng, tables, prop, tname, steps, deadline, max_paths=None, initial=None, bfs=False, slice_s=None):
    job = JobResult("builder:%s" % tname)
    seen = {}

    def harness(ctx):
        bname, model, meths = SPECS[tname](ctx, eng, tables)
        names = sorted(meths)
        b = ctx.call("%s::new" % bname, [])
        hist = []
        for i in range(steps):
            mname = names[ctx.choose(len(names), "step%d" % i)]
            r = meths[mname]("s%d" % i)
            args, refused = (r if isinstance(r, tuple) else (r, False))
            hist.append(mname)
            ctx.side["hist"] = list(hist)
            ctx.side.setdefault("calls", []).append((mname, [deep_clone(a) for a in args]))
            if refused:
                try:
                    ctx.call("%s::%s" % (bname, mname), [b] + args)
                except Panic:
                    return None
                return ("guard", "%s accepted a label reserved for a typed field (documented panic)" % mname)
            b = ctx.call("%s::%s" % (bname, mname), [b] + args)
        x = ctx.call("%s::build" % bname, [b])
        ctx.side["built"] = x
        eq = hcommon.spec_eq(ctx, x, model.value())
        if eq is True:
            return None
        if eq is False or ctx.check(z3.Not(eq)):
            if eq is not False:
                ctx.assume(z3.Not(eq))
            return ("effect", "the built value differs from the documented effect of the calls %s" % hist)
        return None

    def on_leaf(ctx, out):
        if out[0] == "panic":
            cls, what = "panic", "undocumented panic after %s: %s" % (ctx.side.get("hist"), out[1])
        elif out[0] == "ok":
            job.accepting += 1
            if out[1] is None:
                return
            cls, what = out[1]
        else:
            return
        key = "%s:%s:%s" % (prop, tname, cls)
        seen[key] = seen.get(key, 0) + 1
        if seen[key] > 2:
            return
        m = ctx.model()
        if m is None:
            return
        reg = {}
        try:
            script = ";".join(n + (":" + ",".join(arg_spec(eng.impls, m, a, reg) for a in args) if args else "")
                              for n, args in ctx.side.get("calls", []))
        except Unsupported:
            script = "-"
        if cls == "effect" and "built" in ctx.side:
            pred = concrete.DebugFmt(eng.impls, m, reg).fmt(ctx.side["built"])
            cmp_ = None
        elif cls == "guard":
            # the native build must NOT panic where the documentation says it does
            pred, cmp_ = tname, "startswith"
        else:
            pred, cmp_ = "PANIC", "startswith"
        rec = {"property": prop, "key": key, "what": "%s builder: %s" % (tname, what), "op": "ops",
               "type": tname, "input_hex": "", "predicted": pred,
               "command": "ops builder %s %s" % (tname, script or "-"),
               "decisions": [list(d) for d in ctx.trace][:40]}
        if cmp_:
            rec["compare"] = cmp_
        job.findings.append(rec)

    hcommon.run_paths(eng, job, harness, deadline, max_paths, on_leaf, initial=initial, bfs=bfs, slice_s=slice_s)
    job.extra["finding_counts"] = seen
    return job
