"""Value domain of the MIR symbolic interpreter.

Structure is concrete per path; only scalars (and lengths / contents of byte strings) are symbolic.
"""
import z3

from rtypes import INT_BITS

SIGNED = {"i8", "i16", "i32", "i64", "i128", "isize"}


def is_sym(v):
    return isinstance(v, z3.ExprRef)


class Sc:
    """Scalar: integer / bool / char / fieldless-enum discriminant.  `v` is a Python int/bool or a
    z3 BitVec/Bool term.  `enum` names the fieldless enum when the scalar is such a value."""
    __slots__ = ("ty", "v", "enum")

    def __init__(self, ty, v, enum=None):
        self.ty, self.v, self.enum = ty, v, enum

    @property
    def bits(self):
        return INT_BITS[self.ty]

    @property
    def signed(self):
        return self.ty in SIGNED

    def concrete(self):
        return not is_sym(self.v)

    def __repr__(self):
        e = ("%s::" % self.enum) if self.enum else ""
        return "%s%s:%s" % (e, self.v, self.ty)


def wrap(ty, n):
    """Reduce a Python int into the value range of integer type `ty`."""
    bits = INT_BITS[ty]
    n &= (1 << bits) - 1
    if ty in SIGNED and n >= (1 << (bits - 1)):
        n -= 1 << bits
    return n


def bv(sc):
    """z3 bit-vector term for an integer scalar."""
    if is_sym(sc.v):
        return sc.v
    return z3.BitVecVal(sc.v, sc.bits)


def zbool(sc):
    if is_sym(sc.v):
        return sc.v
    return z3.BoolVal(bool(sc.v))


UNIT = ("unit",)


class Adt:
    """struct or enum value with fields.  `variant` is None for structs."""
    __slots__ = ("ty", "variant", "fields")

    def __init__(self, ty, variant, fields):
        self.ty, self.variant, self.fields = ty, variant, fields

    def __repr__(self):
        v = ("::" + self.variant) if self.variant else ""
        return "%s%s%r" % (self.ty, v, self.fields) if self.fields else "%s%s" % (self.ty, v)


class Tup:
    __slots__ = ("fields",)

    def __init__(self, fields):
        self.fields = fields

    def __repr__(self):
        return "(" + ", ".join(map(repr, self.fields)) + ")"


class Arr:
    __slots__ = ("fields",)

    def __init__(self, fields):
        self.fields = fields

    def __repr__(self):
        return repr(self.fields)


class Cell:
    __slots__ = ("v",)

    def __init__(self, v=None):
        self.v = v


class Ref:
    """Reference / raw pointer: (container, key) -- container is a Cell (key None) or a list."""
    __slots__ = ("c", "k")

    def __init__(self, c, k=None):
        self.c, self.k = c, k

    def get(self):
        return self.c.v if self.k is None else self.c[self.k]

    def set(self, v):
        if self.k is None:
            self.c.v = v
        else:
            self.c[self.k] = v

    def __repr__(self):
        return "&%r" % (self.get(),)


class BoxV:
    __slots__ = ("cell",)

    def __init__(self, cell):
        self.cell = cell

    def __repr__(self):
        return "Box(%r)" % (self.cell.v,)


class Opaque:
    """Byte/char sequence of symbolic length whose content is never inspected bytewise.
    `ident` gives it identity (same ident => same bytes); `len` is a z3 BitVec(64) or int."""
    __slots__ = ("ident", "len")

    def __init__(self, ident, length):
        self.ident, self.len = ident, length

    def __repr__(self):
        return "<bytes %s>" % (self.ident,)


class VecV:
    """Vec<T> / String / slice contents.  `elems` is a Python list (concrete length), or None when
    `opaque` (an Opaque) stands for a byte string of symbolic length.  `elem_ty` is 'u8' for byte
    strings, 'char8' for String/str (UTF-8 bytes), else a type name or None."""
    __slots__ = ("elems", "opaque", "kind")

    def __init__(self, elems=None, opaque=None, kind="vec"):
        self.elems, self.opaque, self.kind = elems, opaque, kind

    def __repr__(self):
        if self.elems is None:
            return "%s%r" % (self.kind, self.opaque)
        return "%s%r" % (self.kind, self.elems)


class SetV:
    """BTreeSet<T>: ordered list maintained with coset's own Ord (executed from MIR)."""
    __slots__ = ("elems",)

    def __init__(self, elems=None):
        self.elems = elems or []

    def __repr__(self):
        return "set%r" % (self.elems,)


class IterV:
    """vec::IntoIter / btree_set::IntoIter / Range / Rev / Map adaptors."""
    __slots__ = ("items", "pos", "fn", "inner")

    def __init__(self, items=None, fn=None, inner=None):
        self.items, self.pos, self.fn, self.inner = items, 0, fn, inner


class FnV:
    """Function item / closure value."""
    __slots__ = ("path", "captures", "env", "py")

    def __init__(self, path=None, captures=None, env=None, py=None):
        self.path, self.captures, self.env, self.py = path, captures, env, py

    def __repr__(self):
        return "<fn %s>" % (self.path or self.py,)


class Lazy:
    """Unexplored input `ciborium::Value`; see lazy.InputNode."""
    __slots__ = ("node",)

    def __init__(self, node):
        self.node = node

    def __repr__(self):
        return "<lazy %s>" % (self.node.path,)


class Moved:
    def __repr__(self):
        return "<moved>"


MOVED = Moved()
UNINIT = ("uninit",)


def copy_val(v):
    """Semantics of `copy` / by-value duplication for containers (scalars and refs are immutable)."""
    if isinstance(v, Adt):
        return Adt(v.ty, v.variant, [copy_val(x) for x in v.fields])
    if isinstance(v, Tup):
        return Tup([copy_val(x) for x in v.fields])
    if isinstance(v, Arr):
        return Arr([copy_val(x) for x in v.fields])
    return v


def deep_clone(v):
    """Semantics of `Clone::clone` for owned std containers (structural, element-wise)."""
    if isinstance(v, Adt):
        return Adt(v.ty, v.variant, [deep_clone(x) for x in v.fields])
    if isinstance(v, Tup):
        return Tup([deep_clone(x) for x in v.fields])
    if isinstance(v, Arr):
        return Arr([deep_clone(x) for x in v.fields])
    if isinstance(v, VecV):
        return VecV(None if v.elems is None else [deep_clone(x) for x in v.elems], v.opaque, v.kind)
    if isinstance(v, SetV):
        return type(v)([deep_clone(x) for x in v.elems])
    if isinstance(v, BoxV):
        return BoxV(Cell(deep_clone(v.cell.v)))
    if isinstance(v, Lazy):
        return Lazy(v.node)
    return v
