"""Which mirsym jobs make up each property's check, per tier (bounds live here)."""

STRUCTS = ["CoseSign1", "CoseSign", "CoseSignature", "CoseMac", "CoseMac0", "CoseEncrypt",
           "CoseEncrypt0", "CoseRecipient"]


def shards(n):
    return [(i, n) for i in range(n)]


def c09(tier):
    """Message structures against their CDDL: arity sweep at the top, every CBOR kind in every
    slot, one nested structure (quick) / two (thorough), headers kept shallow (C08 explores them)."""
    if tier == "quick":
        pol = dict(max_array=6, max_nested_array=4, max_map=1, max_text=1, max_depth=5,
                   max_total_entries=1, max_total_items=9)
    else:
        pol = dict(max_array=7, max_nested_array=4, max_map=1, max_text=2, max_depth=6,
                   max_total_entries=1, max_total_items=12)
    jobs = [("jobs_decode", "decode_job", dict(prop="C09", tname=t, policy=pol)) for t in STRUCTS]
    # two sibling structures inside a nested list (order of nested signatures / recipients)
    sib = dict(max_array=5, max_nested_array=3, max_map=0, max_text=1, max_depth=5, max_total_entries=0,
               max_total_items=13, root_kinds=["Array"])
    jobs.append(_dj("C09", "CoseRecipient", dict(sib, root_lens=[4], max_total_items=12), tag=":siblings"))
    jobs.append(_dj("C09", "CoseSign", dict(sib, root_lens=[4], max_total_items=12), tag=":siblings"))
    jobs += _spines("C09", tier)
    return jobs


def _spine(prop, tier):
    """Counter-signature nesting spines, one level at a time up to 12 (16) levels, through protected
    and unprotected headers, bare and list form."""
    return ("jobs_misc", "spine_job", dict(prop=prop, max_level=12 if tier == "quick" else 16))


def _spines(prop, tier):
    """the spine hanging off a COSE_Sign1, a standalone COSE_Signature and the signer of a COSE_Sign"""
    return [("jobs_misc", "spine_job", dict(prop=prop, max_level=12 if tier == "quick" else 16, root_ty=r))
            for r in ("CoseSign1", "CoseSignature", "CoseSign")]


def _heads(prop, tier):
    """Raw inputs = 1..33 symbolic bytes ++ opaque body, through both byte-level entry points of the
    six taggable types: every tag-head encoding and every impossible first byte."""
    jobs = []
    for t in ("CoseSign", "CoseSign1", "CoseMac", "CoseMac0", "CoseEncrypt", "CoseEncrypt0"):
        top = {"CoseMac": 5, "CoseEncrypt0": 3}.get(t, 4)
        pol = dict(max_array=top, max_nested_array=2, max_map=0, max_text=1, max_depth=3, max_total_entries=0,
                   max_total_items=top + (1 if tier == "quick" else 3))
        jobs.append(("jobs_misc", "head_job", dict(prop=prop, tname=t, policy=pol)))
    return jobs


def _dj(prop, tname, pol, kinds=(), tag=""):
    return ("jobs_decode", "decode_job", dict(prop=prop, tname=tname, policy=pol, kinds=kinds, tag=tag))


def c08(tier):
    """Header maps: standalone with two (three) entries so that every rule interaction and order is
    reached; as unprotected header and inside a protected bstr of a carrier with shallower maps."""
    if tier == "quick":
        hdr = dict(max_array=3, max_map=2, max_text=2, max_depth=5, max_total_entries=2, max_total_items=5)
        car = dict(max_array=3, max_nested_array=3, max_map=1, max_text=2, max_depth=6, max_total_entries=1,
                   max_total_items=6)
    else:
        hdr = dict(max_array=3, max_map=3, max_text=2, max_depth=5, max_total_entries=3, max_total_items=3)
        hdr3 = dict(max_array=3, max_map=2, max_text=3, max_depth=5, max_total_entries=2, max_total_items=4)
        car = dict(max_array=4, max_nested_array=4, max_map=2, max_text=2, max_depth=6, max_total_entries=2,
                   max_total_items=8)
    # three entries with scalar values and text labels of <= 2 bytes: which labels count as repeated
    # (and in which wire order the extras are kept) when the third entry meets the first two
    three = dict(max_array=1, max_map=3, max_text=2, max_depth=2, max_total_entries=3, max_total_items=1, map_lens=[3],
                 map_key_kinds=["Integer", "Text"], map_value_kinds=["Integer", "Bytes"])
    jobs = [_dj("C08", "Header", hdr), _dj("C08", "Header", three, tag=":three"), _dj("C08", "CoseEncrypt0", car, tag=":carrier")]
    if tier != "quick":
        jobs.append(_dj("C08", "Header", hdr3, tag=":text3"))
    return jobs


def c10(tier):
    if tier == "quick":
        key = dict(max_array=3, max_map=2, max_text=1, max_depth=3, max_total_entries=2, max_total_items=3)
        ks = dict(max_array=2, max_nested_array=2, max_map=2, max_text=1, max_depth=4, max_total_entries=3,
                  max_total_items=4)
    else:
        key = dict(max_array=3, max_map=3, max_text=2, max_depth=3, max_total_entries=3, max_total_items=3)
        ks = dict(max_array=3, max_nested_array=2, max_map=2, max_text=1, max_depth=4, max_total_entries=3,
                  max_total_items=5)
    three = dict(max_array=1, max_map=3, max_text=1, max_depth=2, max_total_entries=3, max_total_items=1, map_lens=[3],
                 map_key_kinds=["Integer", "Text"], map_value_kinds=["Integer", "Bytes"])
    return [_dj("C10", "CoseKey", key), _dj("C10", "CoseKey", three, tag=":three"), _dj("C10", "CoseKeySet", ks)]


def c12_decode(tier):
    """Duplicate labels on decode, every pair of positions, every nesting position."""
    k = ("dup",)
    if tier == "quick":
        m2 = dict(max_array=2, max_map=2, max_text=1, max_depth=3, max_total_entries=2, max_total_items=2)
        m3 = dict(max_array=1, max_map=3, max_text=1, max_depth=2, max_total_entries=3, max_total_items=1)
        nest = dict(max_array=4, max_nested_array=3, max_map=2, max_text=1, max_depth=6, max_total_entries=2,
                    max_total_items=7, root_kinds=["Array"], root_lens=[3, 4], map_lens=[0, 2],
                    map_key_kinds=["Integer", "Text"], map_value_kinds=["Null", "Bytes", "Array"])
    else:
        m2 = dict(max_array=3, max_map=3, max_text=2, max_depth=3, max_total_entries=3, max_total_items=3)
        m3 = dict(max_array=2, max_map=4, max_text=1, max_depth=3, max_total_entries=4, max_total_items=2)
        nest = dict(max_array=5, max_nested_array=4, max_map=2, max_text=1, max_depth=6, max_total_entries=2,
                    max_total_items=12)
    # three entries with values restricted to kinds that let the decoder get past the first entries:
    # duplicates that are only detected (or missed) after an out-of-order prefix
    d3 = dict(max_array=1, max_map=3, max_text=1, max_depth=2, max_total_entries=3, max_total_items=1,
              map_lens=[3], map_value_kinds=["Bytes", "Integer"])
    return [_dj("C12", "Header", m2, k), _dj("C12", "Header", d3, k, ":three"), _dj("C12", "ClaimsSet", d3, k, ":three"),
            _dj("C12", "ClaimsSet", m2, k), _dj("C12", "CoseKey", m3, k),
            _dj("C12", "CoseSign", dict(nest, root_lens=[4]), k, ":nested"),
            _dj("C12", "CoseEncrypt", dict(nest, root_lens=[4]), k, ":nested"),
            _dj("C12", "CoseSignature", dict(nest, root_lens=[3]), k, ":nested")] + \
        ([_dj("C12", "CoseSign1", dict(nest, root_lens=[4]), k, ":nested")] if tier != "quick" else [])


def c15(tier):
    k = ("range",)
    if tier == "quick":
        m = dict(max_array=3, max_map=1, max_text=1, max_depth=3, max_total_entries=1, max_total_items=3)
        key = dict(max_array=2, max_map=2, max_text=1, max_depth=3, max_total_entries=2, max_total_items=2)
    else:
        m = dict(max_array=3, max_map=2, max_text=1, max_depth=3, max_total_entries=2, max_total_items=4)
        key = dict(max_array=2, max_map=3, max_text=1, max_depth=3, max_total_entries=3, max_total_items=2)
    arr = dict(max_array=5, max_nested_array=3, max_map=0, max_text=1, max_depth=4, max_total_entries=0,
               max_total_items=13)
    nest = dict(max_array=4, max_nested_array=3, max_map=1, max_text=1, max_depth=5, max_total_entries=1,
                max_total_items=8)
    return [_dj("C15", "Header", m, k), _dj("C15", "ClaimsSet", m, k), _dj("C15", "CoseKey", key, k),
            _dj("C15", "PartyInfo", arr, k), _dj("C15", "SuppPubInfo", arr, k),
            _dj("C15", "CoseKdfContext", arr, k), _dj("C15", "CoseSign", nest, k, ":nested")]


def c17(tier):
    """Label-typed positions inside containers (alg, crit entries, content type; kty, key alg, key_ops
    entries; claim names): every integer classified as the registry says, compared with the reference
    decoder over the independent registry table."""
    if tier == "quick":
        m = dict(max_array=2, max_map=1, max_text=1, max_depth=3, max_total_entries=1, max_total_items=2)
        key = dict(max_array=2, max_map=2, max_text=1, max_depth=3, max_total_entries=2, max_total_items=2)
    else:
        m = dict(max_array=3, max_map=2, max_text=1, max_depth=3, max_total_entries=2, max_total_items=3)
        key = dict(max_array=2, max_map=3, max_text=1, max_depth=3, max_total_entries=3, max_total_items=2)
    nest = dict(max_array=4, max_nested_array=3, max_map=1, max_text=1, max_depth=5, max_total_entries=1,
                max_total_items=8)
    return [_dj("C17", "Header", m), _dj("C17", "ClaimsSet", m), _dj("C17", "CoseKey", key),
            _dj("C17", "CoseSign1", nest, tag=":nested")]


def c18(tier):
    if tier == "quick":
        cl = dict(max_array=2, max_map=2, max_text=1, max_depth=3, max_total_entries=2, max_total_items=2)
        kdf = dict(max_array=6, max_nested_array=3, max_map=0, max_text=1, max_depth=4, max_total_entries=0,
                   max_total_items=14)
    else:
        cl = dict(max_array=2, max_map=3, max_text=2, max_depth=3, max_total_entries=3, max_total_items=2)
        kdf = dict(max_array=7, max_nested_array=4, max_map=1, max_text=1, max_depth=4, max_total_entries=1,
                   max_total_items=16)
    sub = dict(max_array=5, max_nested_array=3, max_map=1, max_text=1, max_depth=4, max_total_entries=1,
               max_total_items=8)
    three = dict(max_array=1, max_map=3, max_text=1, max_depth=2, max_total_entries=3, max_total_items=1, map_lens=[3],
                 map_key_kinds=["Integer", "Text"], map_value_kinds=["Integer", "Bytes"])
    # encode direction ("decode and encode per their definitions"): decode -> encode against the
    # reference encoder -> decode -> encode, for each of the four types (round 5: an empty-bstr
    # nonce written as nil was only seen by C07 / C11 before)
    rt = [_rj("C18", t, tier) for t in ("ClaimsSet", "PartyInfo", "SuppPubInfo", "CoseKdfContext")]
    return [_dj("C18", "ClaimsSet", cl), _dj("C18", "ClaimsSet", three, tag=":three"), _dj("C18", "CoseKdfContext", kdf),
            _dj("C18", "PartyInfo", sub), _dj("C18", "SuppPubInfo", sub)] + rt


def _sj(prop, tname, pol, built=False):
    return ("jobs_struct", "structure_job", dict(prop=prop, tname=tname, policy=pol, built=built))


def _struct_pol(tier, top):
    if tier == "quick":
        return dict(max_array=top, max_nested_array=3, max_map=1, max_text=1, max_depth=6, max_total_entries=1,
                    max_total_items=top + 4)
    return dict(max_array=top + 1, max_nested_array=4, max_map=1, max_text=2, max_depth=7, max_total_entries=1,
                max_total_items=top + 8)


def _create_side(prop, types, tier):
    """The bytes the create / try-create builder helpers hand to the caller's function are the RFC
    structure of the builder's state at the time of the call, after every history of <= 4 builder
    calls (quick: 3 for the signature builders and the recipient builder); documented refusals (and nothing else) panic."""
    cheap = ("CoseMac0", "CoseMac", "CoseEncrypt0", "CoseEncrypt")
    return [("jobs_struct", "history_job", dict(prop=prop, tname=t, steps=4 if (tier != "quick" or t in cheap) else 3,
                                                 palette=(0, 3), classes=("create-structure", "refusal", "panic")))
            for t in types]


def c03(tier):
    jobs = [("jobs_struct", "free_structure_job", dict(prop="C03", which="sig"))]
    jobs += _create_side("C03", ("CoseSign1", "CoseSign"), tier)
    for t in ("CoseSign1", "CoseSign"):
        for built in (False, True):
            jobs.append(_sj("C03", t, _struct_pol(tier, 4), built))
    return jobs


def c04(tier):
    jobs = [("jobs_struct", "free_structure_job", dict(prop="C04", which="mac"))]
    jobs += _create_side("C04", ("CoseMac0", "CoseMac"), tier)
    for t, top in (("CoseMac0", 4), ("CoseMac", 5)):
        for built in (False, True):
            jobs.append(_sj("C04", t, _struct_pol(tier, top), built))
    return jobs


def c05(tier):
    jobs = [("jobs_struct", "free_structure_job", dict(prop="C05", which="enc"))]
    jobs += _create_side("C05", ("CoseEncrypt0", "CoseEncrypt", "CoseRecipient"), tier)
    for t, top in (("CoseEncrypt0", 3), ("CoseEncrypt", 4), ("CoseRecipient", 4)):
        for built in (False, True):
            jobs.append(_sj("C05", t, _struct_pol(tier, top), built))
    return jobs


def c06(tier):
    # COSE_Sign with signature templates that were themselves decoded from the wire (their protected
    # headers keep arbitrary retained bytes)
    tmpl = ("jobs_struct", "history_job", dict(prop="C06", tname="CoseSign", steps=2 if tier == "quick" else 3, palette=(0, 3),
                                               wire_template=True))
    if tier == "quick":
        return [("jobs_struct", "history_job", dict(prop="C06", tname=t, steps=3, palette=(0, 3)))
                for t in ("CoseSign1", "CoseSign", "CoseMac0", "CoseMac", "CoseEncrypt0", "CoseEncrypt", "CoseRecipient")] + [tmpl]
    # thorough: the full header palette at three calls, and four calls for the single-layer builders
    jobs = [("jobs_struct", "history_job", dict(prop="C06", tname=t, steps=3, palette=(0, 1, 2, 3)))
            for t in ("CoseSign1", "CoseSign", "CoseMac", "CoseEncrypt", "CoseRecipient")]
    jobs += [("jobs_struct", "history_job", dict(prop="C06", tname=t, steps=4, palette=(0, 3)))
             for t in ("CoseSign1", "CoseMac0", "CoseEncrypt0")]
    return jobs + [tmpl]


ALL_TYPES = STRUCTS + ["Header", "CoseKey", "CoseKeySet", "ClaimsSet", "PartyInfo", "SuppPubInfo", "CoseKdfContext"]


MAPS = ("Header", "CoseKey", "ClaimsSet")


def _rt_pol(tier, t, entries=None):
    top = {"CoseMac": 5, "CoseKdfContext": 5, "CoseKeySet": 2}.get(t, 4)
    if tier == "quick":
        # two entries only where the type itself is a map (order / duplicate interactions live
        # there); carriers get one entry in total
        e = entries if entries is not None else (2 if t in MAPS else 1)
        if t == "CoseKdfContext":
            e = 0           # its only map is the protected header of SuppPubInfo (covered by that type)
        return dict(max_array=top, max_nested_array=3, max_map=e, max_text=1, max_depth=6, max_total_entries=e,
                    max_total_items={"CoseKdfContext": 13, "CoseKeySet": 3, "Header": 4}.get(t, top + 4))
    e = entries if entries is not None else (3 if t in MAPS else 1)
    if t == "CoseKdfContext":
        e = 1
    return dict(max_array=top + 1, max_nested_array=4, max_map=e, max_text=2, max_depth=7, max_total_entries=e,
                max_total_items={"CoseKdfContext": 15, "CoseKeySet": 4, "Header": 6}.get(t, top + 8))


def _rj(prop, t, tier, built=False):
    return ("jobs_encode", "roundtrip_job", dict(prop=prop, tname=t, policy=_rt_pol(tier, t), built=built))


def c07(tier):
    return [_rj("C07", t, tier) for t in ALL_TYPES] + _spines("C07", tier)


def c02(tier):
    """Retention on decode is part of every decode-vs-reference comparison; here: re-encoding and
    the structure helpers use exactly the retained bytes, at every nesting position."""
    jobs = [_rj("C02", t, tier) for t in STRUCTS + ["SuppPubInfo"] + (["CoseKdfContext"] if tier != "quick" else [])]
    for t, top in (("CoseSign1", 4), ("CoseSign", 4), ("CoseMac0", 4), ("CoseEncrypt0", 3)) + \
            ((("CoseRecipient", 4),) if tier != "quick" else ()):
        jobs.append(_sj("C02", t, _struct_pol(tier, top), False))
    jobs.append(_dj("C02", "CoseSign", _struct_pol(tier, 4), tag=":retention"))
    jobs.append(_dj("C02", "SuppPubInfo", _struct_pol(tier, 3), tag=":retention"))
    return jobs


def c11(tier):
    n = 2 if tier == "quick" else 3
    # (COSE_KDF_Context has private fields: its builder-made twin cannot be rebuilt natively, so it is
    # covered as decoded, through C07)
    jobs = [_rj("C11", t, tier, built=True) for t in ALL_TYPES if t != "CoseKdfContext"]
    jobs.append(_rj("C11", "CoseKdfContext", tier, built=False))
    jobs += [("jobs_encode", "encode_job", dict(prop="C11", tname=t, n_extra=n, dups_in_scope=False))
             for t in ("Header", "CoseKey", "ClaimsSet")]
    jobs += _spines("C11", tier)      # "decoding that output returns the original value" along nesting spines
    return jobs


def c12(tier):   # noqa: F811  (decode side defined above is extended with the encode side)
    jobs = c12_decode(tier)
    n = 2 if tier == "quick" else 3
    jobs += [("jobs_encode", "encode_job", dict(prop="C12", tname=t, n_extra=n)) for t in ("Header", "CoseKey", "ClaimsSet")]
    return jobs


def c13(tier):
    pol = _rt_pol(tier, "x")
    pol = dict(pol, max_total_entries=1)
    jobs = []
    for t in ALL_TYPES + ["ProtectedHeader", "Label"]:
        p = dict(pol, max_array={"CoseMac": 5, "CoseKdfContext": 5}.get(t, 4), max_total_items={"CoseKdfContext": 13}.get(t, 9))
        if t == "CoseKdfContext":
            p.update(max_map=0, max_total_entries=0)
        jobs.append(("jobs_misc", "api_job", dict(prop="C13", tname=t, policy=p)))
    jobs.append(("jobs_misc", "api_job", dict(prop="C13", tname="ProtectedHeader", policy=dict(pol, max_array=4, max_total_items=9),
                                              via_bstr=True)))
    jobs += _heads("C13", tier)
    return jobs


def c14(tier):
    pol = dict(_rt_pol(tier, "x"), max_total_entries=1)
    if tier != "quick":
        pol.update(max_nested_array=3, max_total_items=10)
    jobs = [("jobs_misc", "api_job", dict(prop="C14", tname=t, policy=dict(pol, max_array=5 if t == "CoseMac" else 4)))
            for t in ("CoseSign", "CoseSign1", "CoseMac", "CoseMac0", "CoseEncrypt", "CoseEncrypt0")]
    # untagged decoding of every structure type rejects every tagged item: part of C09's exploration,
    # repeated here with a top-level item that may be a tag
    pol2 = dict(max_array=5, max_nested_array=3, max_map=0, max_text=1, max_depth=3, max_total_entries=0, max_total_items=8)
    jobs += [_dj("C14", t, pol2, tag=":untagged") for t in STRUCTS]
    jobs += _heads("C14", tier)
    return jobs


def c16(tier):
    return [("jobs_misc", "order_job", dict(prop="C16", text_max=2 if tier == "quick" else 3))]


def c20(tier):
    return [("jobs_misc", "canonicalize_job", dict(prop="C20", n_params=2 if tier == "quick" else 3)),
            ("jobs_misc", "canonicalize_job", dict(prop="C20", n_params=2, long_text=[9, 10] if tier == "quick" else [9, 10, 24]))]


def c01(tier):
    """Totality: no decoding entry point and no follow-up operation on a decoded value panics
    (only findings of class panic / depth / nesting / crash are reported under C01), plus the
    nesting spine."""
    jobs = []
    for t in ALL_TYPES + ["ProtectedHeader", "Label"]:
        top = {"CoseMac": 5, "CoseKdfContext": 5, "CoseKeySet": 2}.get(t, 4)
        if tier == "quick":
            p = dict(max_array=top + 1, max_nested_array=3, max_map=1, max_text=1, max_depth=6, max_total_entries=1,
                     max_total_items={"CoseKdfContext": 13, "CoseKeySet": 3}.get(t, top + 4))
            if t == "CoseKdfContext":
                p.update(max_map=0, max_total_entries=0, max_array=5)
            if t in ("Header", "ProtectedHeader"):
                p.update(max_text=4)         # four bytes: multi-byte characters before / after a separator
        else:
            p = dict(max_array=top + 2, max_nested_array=4, max_map=1, max_text=2, max_depth=7, max_total_entries=1,
                     max_total_items={"CoseKdfContext": 15}.get(t, top + 8))
            if t == "CoseKdfContext":
                p.update(max_map=0, max_total_entries=0)
        jobs.append(("jobs_misc", "api_job", dict(prop="C01", tname=t, policy=p)))
        if tier != "quick" and t not in ("ProtectedHeader", "Label"):
            jobs.append(("jobs_encode", "roundtrip_job", dict(prop="C01", tname=t, policy=p)))
    for t, top in (("CoseSign1", 4), ("CoseSign", 4), ("CoseMac0", 4), ("CoseMac", 5), ("CoseEncrypt0", 3),
                   ("CoseEncrypt", 4), ("CoseRecipient", 4)):
        jobs.append(_sj("C01", t, _struct_pol(tier, top), False))
    lv = [1, 2, 4, 8, 16, 32] if tier == "quick" else [1, 2, 4, 8, 16, 32, 64, 128]
    jobs.append(("jobs_misc", "depth_job", dict(prop="C01", levels=lv, native_levels=2000)))
    jobs += _spines("C01", tier)
    return jobs


def c19(tier):
    import jobs_builder
    steps = 3 if tier == "quick" else 4
    jobs = [("jobs_builder", "builder_job", dict(prop="C19", tname=t, steps=steps)) for t in sorted(jobs_builder.SPECS)]
    # the create / try-create helpers are builder methods too: their documented effect (the creator is
    # called once with the RFC structure of the current state, its output is stored, its error returned)
    jobs += [("jobs_struct", "history_job", dict(prop="C19", tname=t, steps=2 if tier == "quick" else 3, palette=(0, 3),
                                                  classes=("create", "try", "refusal", "panic")))
             for t in ("CoseSign1", "CoseSign", "CoseMac0", "CoseMac", "CoseEncrypt0", "CoseEncrypt", "CoseRecipient")]
    return jobs
