"""Which mirsym jobs make up each property's check, per tier (bounds live here)."""

STRUCTS = ["CoseSign1", "CoseSign", "CoseSignature", "CoseMac", "CoseMac0", "CoseEncrypt",
           "CoseEncrypt0", "CoseRecipient"]


def shards(n):
    return [(i, n) for i in range(n)]


def c09(tier):
    """Message structures against their CDDL: arity sweep at the top, every CBOR kind in every
    slot, one nested structure (quick) / two (thorough), headers kept shallow (C08 explores them)."""
    if tier == "quick":
        pol = dict(max_array=6, max_nested_array=4, max_map=1, max_text=1, max_depth=4,
                   max_total_entries=1, max_total_items=10)
    else:
        pol = dict(max_array=7, max_nested_array=4, max_map=2, max_text=2, max_depth=5,
                   max_total_entries=2, max_total_items=14)
    return [("jobs_decode", "decode_job", dict(prop="C09", tname=t, policy=pol)) for t in STRUCTS]


def _dj(prop, tname, pol, kinds=(), tag=""):
    return ("jobs_decode", "decode_job", dict(prop=prop, tname=tname, policy=pol, kinds=kinds, tag=tag))


def c08(tier):
    """Header maps: standalone with two (three) entries so that every rule interaction and order is
    reached; as unprotected header and inside a protected bstr of a carrier with shallower maps."""
    if tier == "quick":
        hdr = dict(max_array=3, max_map=2, max_text=2, max_depth=3, max_total_entries=2, max_total_items=5)
        car = dict(max_array=3, max_nested_array=3, max_map=1, max_text=2, max_depth=4, max_total_entries=1,
                   max_total_items=6)
    else:
        hdr = dict(max_array=3, max_map=3, max_text=3, max_depth=4, max_total_entries=3, max_total_items=8)
        car = dict(max_array=3, max_nested_array=3, max_map=2, max_text=2, max_depth=5, max_total_entries=2,
                   max_total_items=9)
    return [_dj("C08", "Header", hdr), _dj("C08", "CoseEncrypt0", car, tag=":carrier")]


def c10(tier):
    if tier == "quick":
        key = dict(max_array=3, max_map=2, max_text=1, max_depth=3, max_total_entries=2, max_total_items=3)
        ks = dict(max_array=2, max_nested_array=2, max_map=2, max_text=1, max_depth=4, max_total_entries=3,
                  max_total_items=4)
    else:
        key = dict(max_array=3, max_map=3, max_text=2, max_depth=3, max_total_entries=3, max_total_items=3)
        ks = dict(max_array=3, max_nested_array=2, max_map=2, max_text=1, max_depth=4, max_total_entries=4,
                  max_total_items=5)
    return [_dj("C10", "CoseKey", key), _dj("C10", "CoseKeySet", ks)]


def c12(tier):
    """Duplicate labels on decode, every pair of positions, every nesting position."""
    k = ("dup",)
    if tier == "quick":
        m2 = dict(max_array=3, max_map=2, max_text=2, max_depth=3, max_total_entries=2, max_total_items=3)
        m3 = dict(max_array=2, max_map=3, max_text=1, max_depth=3, max_total_entries=3, max_total_items=2)
        nest = dict(max_array=4, max_nested_array=3, max_map=2, max_text=1, max_depth=5, max_total_entries=2,
                    max_total_items=8)
    else:
        m2 = dict(max_array=3, max_map=3, max_text=2, max_depth=3, max_total_entries=3, max_total_items=3)
        m3 = dict(max_array=2, max_map=4, max_text=1, max_depth=3, max_total_entries=4, max_total_items=2)
        nest = dict(max_array=5, max_nested_array=4, max_map=2, max_text=1, max_depth=6, max_total_entries=2,
                    max_total_items=12)
    return [_dj("C12", "Header", m2, k), _dj("C12", "ClaimsSet", m2, k), _dj("C12", "CoseKey", m3, k),
            _dj("C12", "CoseSign1", nest, k, ":nested"), _dj("C12", "CoseSign", nest, k, ":nested"),
            _dj("C12", "CoseEncrypt", nest, k, ":nested"), _dj("C12", "CoseSignature", nest, k, ":nested")]


def c15(tier):
    k = ("range",)
    if tier == "quick":
        m = dict(max_array=3, max_map=1, max_text=1, max_depth=3, max_total_entries=1, max_total_items=3)
        key = dict(max_array=2, max_map=2, max_text=1, max_depth=3, max_total_entries=2, max_total_items=2)
    else:
        m = dict(max_array=3, max_map=2, max_text=1, max_depth=3, max_total_entries=2, max_total_items=4)
        key = dict(max_array=2, max_map=3, max_text=1, max_depth=3, max_total_entries=3, max_total_items=2)
    arr = dict(max_array=5, max_nested_array=3, max_map=0, max_text=1, max_depth=4, max_total_entries=0,
               max_total_items=13)
    nest = dict(max_array=4, max_nested_array=3, max_map=1, max_text=1, max_depth=5, max_total_entries=1,
                max_total_items=8)
    return [_dj("C15", "Header", m, k), _dj("C15", "ClaimsSet", m, k), _dj("C15", "CoseKey", key, k),
            _dj("C15", "PartyInfo", arr, k), _dj("C15", "SuppPubInfo", arr, k),
            _dj("C15", "CoseKdfContext", arr, k), _dj("C15", "CoseSign", nest, k, ":nested")]


def c18(tier):
    if tier == "quick":
        cl = dict(max_array=2, max_map=2, max_text=1, max_depth=3, max_total_entries=2, max_total_items=2)
        kdf = dict(max_array=6, max_nested_array=4, max_map=1, max_text=1, max_depth=4, max_total_entries=1,
                   max_total_items=16)
    else:
        cl = dict(max_array=2, max_map=3, max_text=2, max_depth=3, max_total_entries=3, max_total_items=2)
        kdf = dict(max_array=7, max_nested_array=4, max_map=1, max_text=1, max_depth=4, max_total_entries=1,
                   max_total_items=18)
    sub = dict(max_array=5, max_nested_array=3, max_map=1, max_text=1, max_depth=4, max_total_entries=1,
               max_total_items=8)
    return [_dj("C18", "ClaimsSet", cl), _dj("C18", "CoseKdfContext", kdf), _dj("C18", "PartyInfo", sub),
            _dj("C18", "SuppPubInfo", sub)]
