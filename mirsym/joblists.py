"""Which mirsym jobs make up each property's check, per tier (bounds live here)."""

STRUCTS = ["CoseSign1", "CoseSign", "CoseSignature", "CoseMac", "CoseMac0", "CoseEncrypt",
           "CoseEncrypt0", "CoseRecipient"]


def shards(n):
    return [(i, n) for i in range(n)]


def c09(tier):
    """Message structures against their CDDL: arity sweep at the top, every CBOR kind in every
    slot, one nested structure (quick) / two (thorough), headers kept shallow (C08 explores them)."""
    if tier == "quick":
        pol = dict(max_array=6, max_nested_array=4, max_map=1, max_text=1, max_depth=4,
                   max_total_entries=1, max_total_items=10)
    else:
        pol = dict(max_array=7, max_nested_array=4, max_map=2, max_text=2, max_depth=5,
                   max_total_entries=2, max_total_items=14)
    return [("jobs_decode", "decode_job", dict(prop="C09", tname=t, policy=pol)) for t in STRUCTS]
