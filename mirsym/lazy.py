"""Lazy symbolic inputs: an unknown `ciborium::Value` whose shape is decided only when the code
(or an oracle) looks at it.  One InputNode per position of the input tree; the decisions live in
the node, so every alias (clone) of the same input position sees the same shape."""
import z3

from values import Adt, BoxV, Cell, Lazy, Opaque, Sc, Tup, VecV

KINDS = ["Integer", "Bytes", "Float", "Text", "Bool", "Null", "Tag", "Array", "Map"]

CBOR_MIN = -(1 << 64)
CBOR_MAX = (1 << 64) - 1


class Policy:
    """Bounds of the lazy exploration (part of every claim made with it)."""

    def __init__(self, max_array=4, max_map=2, max_text=2, text_mode="concrete",
                 bytes_mode="opaque", max_bytes=2, max_depth=6, kinds=None,
                 max_total_entries=None, max_total_items=None, max_nested_array=None,
                 max_nested_map=None, root_kinds=None, root_lens=None, map_value_kinds=None,
                 map_lens=None, map_key_kinds=None):
        self.max_array, self.max_map, self.max_text = max_array, max_map, max_text
        self.text_mode, self.bytes_mode, self.max_bytes = text_mode, bytes_mode, max_bytes
        self.max_depth = max_depth
        self.kinds = kinds or KINDS
        # budgets over the whole input (sum over all maps / all arrays)
        self.max_total_entries, self.max_total_items = max_total_entries, max_total_items
        # arrays / maps below the root of the input
        self.max_nested_array, self.max_nested_map = max_nested_array, max_nested_map
        # optional restrictions (stated bounds): kinds / lengths of the root item, kinds of map values
        self.root_kinds, self.root_lens, self.map_value_kinds = root_kinds, root_lens, map_value_kinds
        self.map_lens = map_lens          # allowed map sizes (e.g. [0, 2]: empty or exactly two entries)
        self.map_key_kinds = map_key_kinds

    def for_node(self, node):
        """Hook: harnesses subclass to vary bounds by position (node.path)."""
        return self


class InputNode:
    def __init__(self, path, policy, depth=0, role="item"):
        self.role = role
        self.path = path
        self.policy = policy
        self.depth = depth
        self.kind = None
        self.int = None        # z3 BitVec(128)
        self.bytes = None      # VecV (opaque or concrete)
        self.text = None       # VecV kind='string'
        self.float = None      # z3 BitVec(64) raw bits
        self.bool = None       # z3 Bool
        self.tag = None        # z3 BitVec(64)
        self.child = None      # InputNode (tag content)
        self.items = None      # [InputNode]
        self.entries = None    # [(InputNode, InputNode)]
        self.parsed = None     # InputNode: what these bytes parse to (set by the parser stub)
        self.parse_outcome = None

    def __repr__(self):
        return "<node %s %s>" % (self.path, self.kind)

    # ---- deciding the shape ------------------------------------------------------------
    def decide(self, ctx, only=None):
        if self.kind is not None:
            return self.kind
        pol = self.policy.for_node(self)
        kinds = [k for k in pol.kinds if (only is None or k in only)]
        if self.depth == 0 and self.role == "item" and pol.root_kinds:
            kinds = [k for k in kinds if k in pol.root_kinds]
        if self.role == "value" and pol.map_value_kinds:
            kinds = [k for k in kinds if k in pol.map_value_kinds]
        if self.role == "key" and pol.map_key_kinds:
            kinds = [k for k in kinds if k in pol.map_key_kinds]
        if self.depth >= pol.max_depth:
            kinds = [k for k in kinds if k not in ("Array", "Map", "Tag")] or kinds
        k = kinds[ctx.choose(len(kinds), "kind@" + self.path)]
        self.kind = k
        p = self.path
        if k == "Integer":
            self.int = ctx.fresh_bv(p + ".int", 128)
            ctx.assume(z3.And(self.int >= z3.BitVecVal(CBOR_MIN, 128), self.int <= z3.BitVecVal(CBOR_MAX, 128)))
        elif k == "Bytes":
            self.bytes = ctx.fresh_bytes(p + ".bytes", pol.bytes_mode, pol.max_bytes, "vec")
            if self.bytes.opaque is not None:
                ctx.side.setdefault("bytes_nodes", {})[self.bytes.opaque.ident] = self
        elif k == "Text":
            self.text = ctx.fresh_bytes(p + ".text", pol.text_mode, pol.max_text, "string")
        elif k == "Float":
            self.float = ctx.fresh_bv(p + ".f64", 64)
        elif k == "Bool":
            self.bool = ctx.fresh_bool(p + ".bool")
        elif k == "Tag":
            self.tag = ctx.fresh_bv(p + ".tag", 64)
            self.child = InputNode(p + ".tagged", self.policy, self.depth + 1)
        elif k == "Array":
            cap = pol.max_array
            if self.depth >= 1 and pol.max_nested_array is not None:
                cap = pol.max_nested_array
            if pol.max_total_items is not None:
                cap = max(0, min(cap, pol.max_total_items - ctx.side.get("items_used", 0)))
            if self.depth == 0 and pol.root_lens:
                lens = [x for x in pol.root_lens if x <= max(cap, max(pol.root_lens))]
                n = lens[ctx.choose(len(lens), "len@" + p)]
            else:
                n = ctx.choose(cap + 1, "len@" + p)
            ctx.side["items_used"] = ctx.side.get("items_used", 0) + n
            self.items = [InputNode("%s[%d]" % (p, i), self.policy, self.depth + 1) for i in range(n)]
        elif k == "Map":
            cap = pol.max_map
            if self.depth >= 1 and pol.max_nested_map is not None:
                cap = pol.max_nested_map
            if pol.max_total_entries is not None:
                cap = max(0, min(cap, pol.max_total_entries - ctx.side.get("entries_used", 0)))
            if pol.map_lens:
                lens = [x for x in pol.map_lens if x <= cap] or [0]
                n = lens[ctx.choose(len(lens), "len@" + p)]
            else:
                n = ctx.choose(cap + 1, "len@" + p)
            ctx.side["entries_used"] = ctx.side.get("entries_used", 0) + n
            self.entries = [(InputNode("%s{%d}k" % (p, i), self.policy, self.depth + 1, "key"),
                             InputNode("%s{%d}v" % (p, i), self.policy, self.depth + 1, "value")) for i in range(n)]
        return k

    def materialize(self, ctx):
        """Fresh `ciborium::Value` for this node (children stay lazy)."""
        k = self.decide(ctx)
        if k == "Integer":
            return Adt("Value", "Integer", [Adt("Integer", None, [Sc("i128", self.int)])])
        if k == "Bytes":
            return Adt("Value", "Bytes", [clone_seq(self.bytes)])
        if k == "Float":
            return Adt("Value", "Float", [Sc("f64", self.float)])
        if k == "Text":
            return Adt("Value", "Text", [clone_seq(self.text)])
        if k == "Bool":
            return Adt("Value", "Bool", [Sc("bool", self.bool)])
        if k == "Null":
            return Adt("Value", "Null", [])
        if k == "Tag":
            return Adt("Value", "Tag", [Sc("u64", self.tag), BoxV(Cell(Lazy(self.child)))])
        if k == "Array":
            return Adt("Value", "Array", [VecV([Lazy(n) for n in self.items])])
        if k == "Map":
            return Adt("Value", "Map", [VecV([Tup([Lazy(a), Lazy(b)]) for a, b in self.entries])])
        raise AssertionError(k)


def clone_seq(v):
    return VecV(None if v.elems is None else list(v.elems), v.opaque, v.kind)


def force(ctx, v):
    """Value -> non-lazy at the top level."""
    return v.node.materialize(ctx) if isinstance(v, Lazy) else v
