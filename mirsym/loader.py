"""Regenerate the MIR dump from /repo's working tree and build an Engine on it."""
import hashlib
import os
import shutil
import subprocess
import sys
import time

HERE = os.path.dirname(os.path.abspath(__file__))
sys.path.insert(0, HERE)

import mirparse  # noqa: E402
from impls import Impls  # noqa: E402
from interp import Engine  # noqa: E402


def dump_mir(repo, out_dir, features=None, force=True):
    """`cargo +nightly rustc -- -Zunpretty=mir` against the working tree (own target dir)."""
    os.makedirs(out_dir, exist_ok=True)
    tag = "std" if features else "nostd"
    target = os.path.join(out_dir, "target-" + tag)
    out = os.path.join(out_dir, "coset-%s.mir" % tag)
    # make sure rustc really re-runs for the coset unit: remove its fingerprint
    fp = os.path.join(target, "debug", ".fingerprint")
    if os.path.isdir(fp):
        for d in os.listdir(fp):
            if d.startswith("coset-"):
                shutil.rmtree(os.path.join(fp, d), ignore_errors=True)
    cmd = ["cargo", "+nightly", "rustc", "--offline", "--lib", "--manifest-path",
           os.path.join(repo, "Cargo.toml")]
    cmd += ["--features", features] if features else ["--no-default-features"]
    cmd += ["--", "-Zunpretty=mir", "-C", "debug-assertions=off", "-C", "overflow-checks=on"]
    env = dict(os.environ, CARGO_TARGET_DIR=target, CARGO_NET_OFFLINE="true")
    t0 = time.time()
    p = subprocess.run(cmd, cwd=repo, env=env, stdout=subprocess.PIPE, stderr=subprocess.PIPE, text=True)
    if p.returncode != 0 or "fn " not in p.stdout:
        raise RuntimeError("MIR dump failed (rc=%s):\n%s" % (p.returncode, p.stderr[-3000:]))
    with open(out, "w") as f:
        f.write(p.stdout)
    return out, time.time() - t0


def load_engine(mir_path, repo, policy=None):
    text = open(mir_path).read()
    prog = mirparse.parse_program(text)
    if prog.errors:
        raise RuntimeError("MIR constructs outside the supported subset: %r" % (prog.errors[:5],))
    impls = Impls(prog, repo)
    eng = Engine(prog, impls, policy)
    eng.mir_sha = hashlib.sha256(text.encode()).hexdigest()[:16]
    return eng
