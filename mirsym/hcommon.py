"""Shared machinery of the mirsym property jobs: running a job over all paths, comparing coset's
outcome with the reference decoder, collecting findings with replayable concrete inputs."""
import time

import z3

import concrete
import models
import refdec
from interp import DepthExceeded, Panic, Unsupported
from lazy import Policy
from values import (UNIT, Adt, Arr, BoxV, Lazy, Ref, Sc, SetV, Tup, VecV, bv, is_sym, zbool)


class JobResult:
    def __init__(self, name):
        self.name = name
        self.paths = 0
        self.accepting = 0
        self.rejecting = 0
        self.panics = 0
        self.findings = []       # dicts: key, what, replay (dict), detail
        self.samples = []
        self.incomplete = []     # reasons the job could not finish (time-out, unsupported construct)
        self.wall_s = 0.0
        self.extra = {}

    def as_dict(self):
        return dict(name=self.name, paths=self.paths, accepting=self.accepting, rejecting=self.rejecting,
                    panics=self.panics, findings=self.findings, samples=self.samples,
                    incomplete=self.incomplete, wall_s=round(self.wall_s, 2), extra=self.extra)


def spec_eq(ctx, a, e):
    """Equality of coset's result `a` with the reference's expectation `e`: structural; the same
    input position (lazy node) is equal to itself; sets compare as sets; floats by bit pattern."""
    while isinstance(a, Ref):
        a = a.get()
    while isinstance(e, Ref):
        e = e.get()
    if isinstance(a, Lazy) and isinstance(e, Lazy):
        if a.node is e.node:
            return True
        return models.struct_eq(ctx, a, e)
    if isinstance(a, Lazy) or isinstance(e, Lazy):
        from lazy import force
        return spec_eq(ctx, force(ctx, a), force(ctx, e))
    if isinstance(a, Sc) and isinstance(e, Sc):
        if a.ty == "bool" or e.ty == "bool":
            if not is_sym(a.v) and not is_sym(e.v):
                return bool(a.v) == bool(e.v)
            return zbool(a) == zbool(e)
        if not is_sym(a.v) and not is_sym(e.v):
            return int(a.v) == int(e.v)
        x, y = bv(a), bv(e)
        if x.size() != y.size():
            return False
        return x == y
    if isinstance(a, Adt) and isinstance(e, Adt):
        if a.ty != e.ty or a.variant != e.variant or len(a.fields) != len(e.fields):
            return False
        return _conj(ctx, a.fields, e.fields)
    if isinstance(a, (Tup, Arr)) and isinstance(e, (Tup, Arr)):
        if len(a.fields) != len(e.fields):
            return False
        return _conj(ctx, a.fields, e.fields)
    if isinstance(a, BoxV) and isinstance(e, BoxV):
        return spec_eq(ctx, a.cell.v, e.cell.v)
    if isinstance(a, VecV) and isinstance(e, VecV):
        if (a.elems is None or e.elems is None) or (a.kind != "vec" or e.kind != "vec") or \
                all(isinstance(x, Sc) for x in a.elems + e.elems):
            if a.elems is not None and e.elems is not None and not all(isinstance(x, Sc) for x in a.elems + e.elems):
                return False
            return models.bytes_eq(ctx, a, e)
        if len(a.elems) != len(e.elems):
            return False
        return _conj(ctx, a.elems, e.elems)
    if isinstance(a, SetV) and isinstance(e, SetV):
        if len(a.elems) != len(e.elems):
            return False
        conds = []
        for x in e.elems:
            alts = [spec_eq(ctx, y, x) for y in a.elems]
            if any(c is True for c in alts):
                continue
            alts = [c for c in alts if c is not False]
            if not alts:
                return False
            conds.append(z3.Or(alts))
        return z3.And(conds) if conds else True
    if a is UNIT and e is UNIT:
        return True
    return False


def _conj(ctx, xs, ys):
    conds = []
    for x, y in zip(xs, ys):
        c = spec_eq(ctx, x, y)
        if c is False:
            return False
        if c is not True:
            conds.append(c)
    if not conds:
        return True
    return z3.And(conds) if len(conds) > 1 else conds[0]


ERR_KIND = {"OutOfRangeIntegerValue": "range", "DuplicateMapKey": "dup"}


def compare_with_reference(ctx, eng, tables, method, node, result, strict_first=False, kinds=()):
    """Runs the reference decoder `method` on `node` and compares with coset's `result`
    (an interpreter Result value).  Returns None if they agree on this path, else a dict
    describing the disagreement (the path condition then has a model = concrete input)."""
    accepted = result.variant == "Ok"
    check_kinds = kinds          # error kinds this property pins down ('range', 'dup')
    for strict in ((True,) if strict_first else (False, True)):
        ref = refdec.RefDec(ctx, eng.impls, tables, strict=strict)
        exp = getattr(ref, method)(node)
        kinds = sorted(set(k for k, _ in ref.faults))
        if ref.faults:
            if accepted:
                return {"what": "accepted an input the specification rejects (%s)" % ref.faults[:3],
                        "class": "accept-illformed:" + kinds[0]}
            got = result.fields[0].variant
            # error kind, where the property names it: a single-fault input
            if len(ref.faults) == 1 and kinds[0] in check_kinds:
                want = {"range": "OutOfRangeIntegerValue", "dup": "DuplicateMapKey"}[kinds[0]]
                if got != want:
                    return {"what": "single-fault input (%s at %s) rejected with %s instead of %s"
                            % (ref.faults[0][0], ref.faults[0][1], got, want),
                            "class": "wrong-error-kind:%s:%s" % (kinds[0], nesting_class(ref.faults[0][1]))}
            if got in ERR_KIND and ERR_KIND[got] in check_kinds and ERR_KIND[got] not in kinds and not ref.incomplete:
                return {"what": "rejected with %s but the input has no such fault (%s)" % (got, ref.faults[:3]),
                        "class": "spurious-error-kind:" + got}
            return None
        if ref.incomplete:
            if not accepted and not strict:
                continue          # decide the rest of the input and look again
            if not strict:
                continue
        if exp is None:
            # strict, no faults, yet no expectation: cannot happen
            raise Unsupported("reference decoder returned neither faults nor a value")
        if not accepted:
            return {"what": "rejected (%s) an input the specification accepts" % result.fields[0].variant,
                    "class": "reject-wellformed:" + result.fields[0].variant}
        eq = spec_eq(ctx, result.fields[0], exp)
        if eq is True:
            return None
        if eq is False or ctx.check(z3.Not(eq)):
            if eq is not False:
                ctx.assume(z3.Not(eq))
            return {"what": "accepted, but a decoded field differs from the wire content",
                    "class": "field-mismatch", "expected": exp}
        return None
    return None


def nesting_class(where):
    w = where
    for a, b in ((".protected", "P"), (".unprotected", "U"), (".signatures", "S"), (".recipients", "R"),
                 (":countersig", "C")):
        w = w.replace(a, b)
    import re
    return re.sub(r"[^PUSRC]", "", w) or "top"


def finding_from_path(ctx, eng, prop, key, what, op, tname, node, extra=None, result=None, panic=False):
    """Concretise the current path's input (one consistent choice of bytes for every opaque
    string) and package a replayable finding with the engine's prediction of the native outcome."""
    m = ctx.model()
    if m is None:
        return None
    registry = {}
    tree = concrete.node_to_tree(m, node, registry)
    data = concrete.encode(tree)
    rec = {"property": prop, "key": key, "what": what, "op": op, "type": tname,
           "input_hex": data.hex(), "decisions": [list(d) for d in ctx.trace][:60]}
    if panic:
        rec["predicted"] = "PANIC"
    elif result is not None:
        rec["predicted"] = concrete.DebugFmt(eng.impls, m, registry).result(result)
    if extra:
        rec.update(extra)
    return rec


def run_paths(eng, job, harness, deadline, max_paths=None, on_leaf=None, initial=None, bfs=False,
              slice_s=None):
    """Drive eng.explore over `harness`, bookkeeping into `job`.  With `slice_s` the exploration
    yields after that many seconds and hands its unexplored sub-trees back to the runner."""
    t0 = time.time()
    stop = deadline
    if slice_s is not None:
        stop = min(deadline, t0 + slice_s) if deadline is not None else t0 + slice_s
    try:
        for ctx, out in eng.explore(harness, max_paths=max_paths, deadline=stop, initial=initial, bfs=bfs):
            if ctx is None:
                if (bfs and out[0] == "truncated") or (out[0] == "timeout" and deadline is not None
                                                       and time.time() < deadline):
                    job.extra["frontier"] = eng.frontier      # handed out to the pool by the runner
                else:
                    job.incomplete.append("%s after %d paths (%s unexplored prefixes)" % (out[0], job.paths, out[1]))
                break
            job.paths += 1
            if out[0] == "panic":
                job.panics += 1
            if on_leaf is not None:
                on_leaf(ctx, out)
    except Unsupported as e:
        job.incomplete.append("cannot encode: %s" % e)
    job.wall_s += time.time() - t0
    return job
