"""Parser for rustc's textual MIR dump (`-Zunpretty=mir`) of the coset crate.

The dump is regenerated from /repo's working tree on every run; nothing about coset's logic is
transcribed by hand.  Anything the parser does not understand is a hard error naming the
construct, so that a change to /repo which leaves the supported subset is reported as
"cannot encode" instead of being skipped silently.
"""
import re

OPEN = {"<": ">", "(": ")", "[": "]", "{": "}"}
CLOSE = {v: k for k, v in OPEN.items()}


class ParseError(Exception):
    pass


def scan_top(s, start=0):
    """Yield (index, char) for characters at bracket nesting level 0 (strings/chars skipped,
    `->`/`=>` not treated as closing brackets)."""
    depth = 0
    i, n = start, len(s)
    while i < n:
        c = s[i]
        if c == '"':
            j = i + 1
            while j < n and s[j] != '"':
                j += 2 if s[j] == "\\" else 1
            i = j + 1
            continue
        if c == "'" and i + 2 < n and (s[i + 2] == "'" or (s[i + 1] == "\\" and "'" in s[i + 2:i + 8])):
            j = s.index("'", i + 2 if s[i + 1] != "\\" else i + 3)
            i = j + 1
            continue
        if c in "-=" and i + 1 < n and s[i + 1] == ">":
            if depth == 0:
                yield i, c + ">"
            i += 2
            continue
        if c in OPEN:
            if depth == 0:
                yield i, c
            depth += 1
        elif c in CLOSE:
            depth -= 1
            if depth == 0:
                yield i, c
            elif depth < 0:
                depth = 0
                yield i, c
        elif depth == 0:
            yield i, c
        i += 1


def split_top(s, sep=","):
    parts, last = [], 0
    for i, c in scan_top(s):
        if c == sep:
            parts.append(s[last:i].strip())
            last = i + 1
    tail = s[last:].strip()
    if tail or parts:
        parts.append(tail)
    return [p for p in parts if p != ""] if sep == "," else parts


def find_top(s, needle, start=0):
    """Index of `needle` at nesting level 0, or -1."""
    n0 = needle[0]
    for i, c in scan_top(s, start):
        if c[0] == n0 and s.startswith(needle, i):
            return i
    return -1


def matching(s, i):
    """Index of the bracket matching the opening bracket at s[i]."""
    want = OPEN[s[i]]
    depth = 0
    j, n = i, len(s)
    while j < n:
        c = s[j]
        if c == '"':
            k = j + 1
            while k < n and s[k] != '"':
                k += 2 if s[k] == "\\" else 1
            j = k + 1
            continue
        if c in "-=" and j + 1 < n and s[j + 1] == ">":
            j += 2
            continue
        if c in OPEN:
            depth += 1
        elif c in CLOSE:
            depth -= 1
            if depth == 0:
                if c != want:
                    raise ParseError("mismatched bracket in %r" % s)
                return j
        j += 1
    raise ParseError("unbalanced %r" % s)


# --------------------------------------------------------------------------- places / operands

def parse_place(s):
    """-> ('local', n) | ('deref', P) | ('field', P, k, ty) | ('downcast', P, variant)
          | ('index', P, local) | ('cindex', P, k, from_end) | ('subslice', P, a, b, from_end)"""
    s = s.strip()
    # trailing index projections bind tightest: P[...]
    if s.endswith("]"):
        # find the matching '[' of the final bracket group
        depth, j = 0, len(s) - 1
        while j >= 0:
            if s[j] == "]":
                depth += 1
            elif s[j] == "[":
                depth -= 1
                if depth == 0:
                    break
            j -= 1
        base, inner = s[:j], s[j + 1:-1]
        if base:
            m = re.fullmatch(r"_(\d+)", inner)
            if m:
                return ("index", parse_place(base), int(m.group(1)))
            m = re.fullmatch(r"(-?)(\d+) of (\d+)", inner)
            if m:
                return ("cindex", parse_place(base), int(m.group(2)), m.group(1) == "-")
            m = re.fullmatch(r"(\d+):(-?)(\d*)", inner)
            if m:
                return ("subslice", parse_place(base), int(m.group(1)),
                        int(m.group(3)) if m.group(3) else 0, m.group(2) == "-")
            raise ParseError("index projection %r" % s)
    m = re.fullmatch(r"_(\d+)", s)
    if m:
        return ("local", int(m.group(1)))
    if s.startswith("(") and matching(s, 0) == len(s) - 1:
        inner = s[1:-1].strip()
        if inner.startswith("*"):
            return ("deref", parse_place(inner[1:]))
        k = find_top(inner, " as ")
        c = find_top(inner, ": ")
        if k >= 0 and (c < 0 or k < c):
            return ("downcast", parse_place(inner[:k]), inner[k + 4:].strip())
        if c >= 0:
            left, ty = inner[:c], inner[c + 2:].strip()
            d = left.rfind(".")
            return ("field", parse_place(left[:d]), int(left[d + 1:]), ty)
    raise ParseError("place %r" % s)


def parse_operand(s):
    s = s.strip()
    if s.startswith("no_retag "):
        s = s[9:]
    if s.startswith("move "):
        return ("move", parse_place(s[5:]))
    if s.startswith("copy "):
        return ("copy", parse_place(s[5:]))
    if s.startswith("const "):
        return ("const", s[6:].strip())
    return ("fnitem", s)


BINOPS = {"Add", "Sub", "Mul", "Div", "Rem", "BitXor", "BitAnd", "BitOr", "Shl", "Shr", "Eq", "Lt",
          "Le", "Ne", "Ge", "Gt", "Cmp", "Offset", "AddWithOverflow", "SubWithOverflow",
          "MulWithOverflow", "AddUnchecked", "SubUnchecked", "MulUnchecked", "ShlUnchecked",
          "ShrUnchecked"}
UNOPS = {"Not", "Neg", "PtrMetadata"}


def parse_rvalue(s):
    s = s.strip()
    if s.startswith("&raw const ") or s.startswith("&raw mut "):
        rest = s.split(" ", 2)[2].strip()
        if rest.startswith("(fake) "):          # fake borrow for a match guard: an ordinary address-of here
            rest = rest[7:].strip()
        return ("rawref", parse_place(rest))
    if s.startswith("&mut "):
        return ("ref", parse_place(s[5:]), True)
    if s.startswith("&"):
        rest = s[1:].strip()
        if rest.startswith("fake "):
            rest = rest.split(" ", 2)[2] if rest.startswith("fake shallow ") else rest[5:]
        return ("ref", parse_place(rest), False)
    if s.startswith("discriminant(") and s.endswith(")"):
        return ("discriminant", parse_place(s[13:-1]))
    if s.startswith("Len(") and s.endswith(")"):
        return ("len", parse_place(s[4:-1]))
    if s.startswith("CopyForDeref(") and s.endswith(")"):
        return ("use", ("copy", parse_place(s[13:-1])))
    if s.startswith("ShallowInitBox("):
        args = split_top(s[15:-1])
        return ("shallow_init_box", parse_operand(args[0]), args[1])
    m = re.match(r"([A-Za-z]+)\(", s)
    if m and matching(s, m.end() - 1) == len(s) - 1:
        name = m.group(1)
        if name in BINOPS:
            a, b = split_top(s[m.end():-1])
            return ("binop", name, parse_operand(a), parse_operand(b))
        if name in UNOPS:
            return ("unop", name, parse_operand(s[m.end():-1]))
    # cast:  OPERAND as TYPE (Kind)
    if s.endswith(")"):
        k = s.rfind(" (")
        if k > 0:
            kind = s[k + 2:-1]
            a = find_top(s[:k], " as ")
            if a >= 0 and re.fullmatch(r"[A-Za-z]+(\([A-Za-z, ]*\))?", kind):
                return ("cast", parse_operand(s[:a]), s[a + 4:k].strip(), kind)
    if s.startswith("move ") or s.startswith("copy ") or s.startswith("const ") or s.startswith("no_retag "):
        return ("use", parse_operand(s))
    if s.startswith("["):
        e = matching(s, 0)
        if e == len(s) - 1:
            inner = s[1:-1]
            semi = find_top(inner, "; ")
            if semi >= 0:
                return ("repeat", parse_operand(inner[:semi]), inner[semi + 2:].strip())
            return ("aggregate", "array", None, [parse_operand(x) for x in split_top(inner)])
    if s.startswith("("):
        e = matching(s, 0)
        if e == len(s) - 1:
            inner = s[1:-1].strip()
            if inner.endswith(","):
                inner = inner[:-1]
            return ("aggregate", "tuple", None, [parse_operand(x) for x in split_top(inner)])
    if s.startswith("{closure@"):
        e = matching(s, 0)
        rest = s[e + 1:].strip()
        caps = []
        if rest.startswith("{") and rest.endswith("}"):
            # captured variables, in field order:  { self: move _9, other: move _10 }
            for part in split_top(rest[1:-1].strip()):
                c = find_top(part, ": ")
                caps.append(parse_operand(part[c + 2:]))
        return ("aggregate", "closure", s[:e + 1], caps)
    # ADT aggregates: Path { a: x, b: y } | Path(x, y) | Path
    b = find_top(s, " {")
    if b > 0 and s.endswith("}"):
        inner = s[b + 2:-1].strip()
        fields = []
        for part in split_top(inner):
            c = find_top(part, ": ")
            fields.append((part[:c].strip(), parse_operand(part[c + 2:])))
        return ("aggregate", "adt_named", s[:b].strip(), fields)
    if s.endswith(")"):
        p = find_top(s, "(")
        if p > 0 and matching(s, p) == len(s) - 1:
            return ("aggregate", "adt_tuple", s[:p].strip(),
                    [parse_operand(x) for x in split_top(s[p + 1:-1])])
    if re.fullmatch(r"[A-Za-z_][\w:<>, ]*", s) or re.fullmatch(r"[\w:]+(::<.*>)?(::\w+)+", s):
        return ("aggregate", "adt_unit", s, [])
    raise ParseError("rvalue %r" % s)


# --------------------------------------------------------------------------- functions

class Function:
    __slots__ = ("name", "args", "arg_types", "ret_type", "locals", "blocks", "cleanup", "kind",
                 "header", "index", "span", "impl_span", "nargs")

    def __init__(self, name, kind):
        self.name, self.kind = name, kind
        self.args, self.arg_types, self.ret_type = [], [], None
        self.locals, self.blocks, self.cleanup = {}, {}, set()
        self.header = ""
        self.impl_span = None

    def __repr__(self):
        return "<fn %s(%s)>" % (self.name, ", ".join(self.arg_types))


_TARGETS = re.compile(r" -> (\[.*\]|unwind [a-z]+(\([a-z]+\))?|bb\d+);$")


def parse_targets(t):
    """'[return: bb1, unwind: bb2]' -> {'return': 1, 'unwind': 2 or 'continue'...}"""
    out = {}
    t = t.strip()
    if t.startswith("["):
        for part in split_top(t[1:-1]):
            m = re.fullmatch(r"(\w+): bb(\d+)", part)
            if m:
                out[m.group(1)] = int(m.group(2))
                continue
            m = re.fullmatch(r"unwind (\w+)(\(\w+\))?", part)
            if m:
                out["unwind"] = m.group(1)
                continue
            m = re.fullmatch(r"(-?\d+): bb(\d+)", part)
            if m:
                out[int(m.group(1))] = int(m.group(2))
                continue
            raise ParseError("target %r" % part)
    elif t.startswith("unwind"):
        out["unwind"] = t.split()[1]
    elif t.startswith("bb"):
        out["goto"] = int(t[2:])
    return out


def parse_statement(line):
    """A statement or terminator line (without trailing ';')."""
    s = line.strip()
    if s.endswith(";"):
        s = s[:-1]
    if s in ("return", "unreachable", "resume", "nop"):
        return (s,)
    if s.startswith("unwind terminate") or s.startswith("terminate"):
        return ("abort",)
    for pre in ("StorageLive(", "StorageDead(", "Retag(", "PlaceMention(", "FakeRead(",
                "AscribeUserType(", "Coverage::", "ConstEvalCounter", "BackwardIncompatibleDropHint("):
        if s.startswith(pre):
            return ("nop",)
    if s.startswith("Deinit("):
        return ("nop",)
    if s.startswith("goto -> bb"):
        return ("goto", int(s[10:]))
    if s.startswith("switchInt("):
        e = matching(s, 9)
        op = parse_operand(s[10:e])
        tg = s[e + 1:].strip()
        assert tg.startswith("-> ["), s
        targets, otherwise = [], None
        for part in split_top(tg[4:-1]):
            k, v = part.split(": bb")
            if k == "otherwise":
                otherwise = int(v)
            else:
                targets.append((int(k), int(v)))
        return ("switch", op, targets, otherwise)
    if s.startswith("drop("):
        e = matching(s, 4)
        return ("drop", parse_place(s[5:e]), parse_targets(s[e + 1:].strip()[3:]))
    if s.startswith("assert("):
        e = matching(s, 6)
        args = split_top(s[7:e])
        cond = args[0]
        expected = True
        if cond.startswith("!"):
            expected = False
            cond = cond[1:]
        return ("assert", parse_operand(cond), expected, args[1] if len(args) > 1 else "",
                parse_targets(s[e + 1:].strip()[3:]))
    if s.startswith("discriminant(") and " = " in s:
        e = matching(s, 12)
        return ("set_discriminant", parse_place(s[13:e]), int(s[e + 1:].strip()[2:]))
    # call terminator or assignment
    arrow = None
    for i, c in scan_top(s):
        if c == "->":
            arrow = i
    eq = find_top(s, " = ")
    if arrow is not None and (s.endswith("]") or re.search(r"-> (unwind \w+(\(\w+\))?|bb\d+)$", s)):
        lhs, callee = (s[:eq], s[eq + 3:arrow]) if (eq >= 0 and eq < arrow) else (None, s[:arrow])
        callee = callee.strip()
        p = None
        # the argument list is the last top-level (...) group
        for i, c in scan_top(callee):
            if c == "(":
                p = i
        if p is None:
            raise ParseError("call %r" % s)
        func = callee[:p].strip()
        args = [parse_operand(x) for x in split_top(callee[p + 1:matching(callee, p)])]
        fop = parse_operand(func) if (func.startswith("move ") or func.startswith("copy ")) else ("fnitem", func)
        return ("call", parse_place(lhs) if lhs is not None else None, fop, args,
                parse_targets(s[arrow + 2:].strip()))
    if eq >= 0:
        return ("assign", parse_place(s[:eq]), parse_rvalue(s[eq + 3:]))
    raise ParseError("statement %r" % s)


_FN_HEAD = re.compile(r"^(fn|const|static|static mut) ")


class Program:
    def __init__(self):
        self.functions = []          # all Function objects (names are not unique)
        self.by_name = {}            # name -> [Function]
        self.consts = {}             # name -> Function (kind const) or literal string
        self.discr = {}              # 'Enum::Variant' -> int (explicit discriminants)
        self.errors = []


def parse_program(text):
    prog = Program()
    lines = text.split("\n")
    i, n = 0, len(lines)
    while i < n:
        line = lines[i]
        if not _FN_HEAD.match(line):
            i += 1
            continue
        # simple constants:  const X: T = const V;
        m = re.match(r"^const (.+?): ([^=]+) = const (.+);$", line)
        if m and not line.rstrip().endswith("{"):
            name = m.group(1).strip()
            dm = re.fullmatch(r"(.+)::(\w+)::\{constant#0\}", name)
            if dm:
                prog.discr[dm.group(1).split("::")[-1] + "::" + dm.group(2)] = \
                    int(re.match(r"-?\d+", m.group(3)).group(0))
            else:
                prog.consts[name] = ("literal", m.group(3).strip(), m.group(2).strip())
            i += 1
            continue
        if not line.rstrip().endswith("{"):
            i += 1
            continue
        # body
        j = i + 1
        while j < n and lines[j] != "}":
            j += 1
        try:
            f = parse_function(line, lines[i + 1:j])
            f.index = len(prog.functions)
            prog.functions.append(f)
            prog.by_name.setdefault(f.name, []).append(f)
            if f.kind == "const":
                prog.consts[f.name] = f
        except ParseError as e:
            prog.errors.append((line[:160], str(e)))
        i = j + 1
    return prog


def parse_function(head, body):
    head = head.rstrip()
    assert head.endswith("{")
    head = head[:-1].rstrip()
    if head.startswith("fn "):
        kind, rest = "fn", head[3:]
        p = find_top(rest, "(")
        name = rest[:p].strip()
        e = matching(rest, p)
        f = Function(name, kind)
        for a in split_top(rest[p + 1:e]):
            m = re.match(r"_(\d+): (.*)$", a)
            f.args.append(int(m.group(1)))
            f.arg_types.append(m.group(2).strip())
        ret = rest[e + 1:].strip()
        f.ret_type = ret[2:].strip() if ret.startswith("->") else "()"
    else:
        kind = "const"
        rest = head.split(" ", 1)[1]
        if rest.startswith("mut "):
            rest = rest[4:]
        eq = rest.rfind(" =")
        decl = rest[:eq]
        c = find_top(decl, ": ")
        f = Function(decl[:c].strip(), kind)
        f.ret_type = decl[c + 2:].strip()
    f.header = head
    f.nargs = len(f.args)
    m = re.search(r"<impl at ([^>]+)>", f.name)
    f.impl_span = m.group(1) if m else None
    cur = None
    for raw in body:
        s = raw.strip()
        if not s or s.startswith("//") or s.startswith("debug ") or s.startswith("scope ") or s == "}":
            continue
        m = re.match(r"let (mut )?_(\d+): (.*);$", s)
        if m:
            f.locals[int(m.group(2))] = m.group(3)
            continue
        m = re.match(r"bb(\d+)( \(cleanup\))?: \{$", s)
        if m:
            cur = []
            f.blocks[int(m.group(1))] = cur
            if m.group(2):
                f.cleanup.add(int(m.group(1)))
            continue
        if cur is None:
            raise ParseError("statement outside block: %r" % s)
        if int(len(f.blocks) - 1) in f.cleanup and False:
            continue
        try:
            cur.append(parse_statement(s))
        except ParseError:
            # cleanup blocks are never executed (no unwinding past a panic leaf): keep them opaque
            if (max(f.blocks) in f.cleanup):
                cur.append(("opaque", s))
            else:
                raise
        except Exception as e:  # noqa
            if (max(f.blocks) in f.cleanup):
                cur.append(("opaque", s))
            else:
                raise ParseError("%s: %r" % (e, s))
    for k, t in enumerate(f.arg_types):
        f.locals.setdefault(f.args[k], t)
    return f


if __name__ == "__main__":
    import sys
    import collections
    prog = parse_program(open(sys.argv[1]).read())
    print("functions", len(prog.functions), "consts", len(prog.consts), "discr", len(prog.discr))
    print("errors", len(prog.errors))
    for h, e in prog.errors[:40]:
        print("  ", h, "\n      ", e)
    kinds = collections.Counter()
    for f in prog.functions:
        for b in f.blocks.values():
            for st in b:
                k = st[0]
                if k == "assign":
                    k += ":" + st[2][0] + (":" + str(st[2][1]) if st[2][0] in ("aggregate", "cast", "binop", "unop") and st[2][0] != "cast" else "")
                    if st[2][0] == "cast":
                        k += ":" + st[2][3]
                kinds[k] += 1
    for k, v in sorted(kinds.items(), key=lambda x: -x[1]):
        print(v, k)
