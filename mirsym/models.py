"""Models of the external callees of coset's MIR (core/alloc/ciborium), written against their
documentation, never against coset.  Anything not modelled raises Unsupported (hard error)."""
import z3

from lazy import clone_seq, force
from rtypes import INT_BITS, Ty, parse_callpath, subst
from values import (MOVED, UNINIT, UNIT, Adt, Arr, BoxV, Cell, FnV, IterV, Lazy, Opaque, Ref, Sc,
                    SetV, Tup, VecV, bv, copy_val, deep_clone, is_sym, wrap, zbool)

NO_MODEL = object()


def _unsupported(msg):
    from interp import Unsupported
    raise Unsupported(msg)


def _panic(kind, msg, where=""):
    from interp import Panic
    raise Panic(kind, msg, where)


def deref(v):
    while isinstance(v, Ref):
        v = v.get()
    return v


def mk_bool(b):
    return Sc("bool", b)


def OPT_NONE():
    return Adt("Option", "None", [])


def OPT_SOME(v):
    return Adt("Option", "Some", [v])


def OK(v):
    return Adt("Result", "Ok", [v])


def ERR(e):
    return Adt("Result", "Err", [e])


def ordering(n):
    return Sc("i8", n, enum="Ordering")


# ------------------------------------------------------------------------------- sequences

def seq_len(ctx, v):
    v = deref(v)
    if isinstance(v, VecV):
        if v.elems is None:
            return Sc("usize", v.opaque.len)
        ops = [e for e in v.elems if isinstance(e, Opaque)]
        if ops:
            # concatenation of single bytes and opaque strings (hand-assembled output)
            n = z3.BitVecVal(len(v.elems) - len(ops), 64)
            for o in ops:
                n = n + (o.len if is_sym(o.len) else z3.BitVecVal(o.len, 64))
            return Sc("usize", z3.simplify(n))
        return Sc("usize", len(v.elems))
    if isinstance(v, Arr):
        return Sc("usize", len(v.fields))
    if isinstance(v, SetV):
        return Sc("usize", len(v.elems))
    _unsupported("len of %r" % (v,))


def seq_is_empty(ctx, v):
    n = seq_len(ctx, v)
    if is_sym(n.v):
        return Sc("bool", n.v == 0)
    return Sc("bool", n.v == 0)


def bytes_eq(ctx, a, b):
    """Equality of two byte/char sequences as a z3 Bool / Python bool (no forking)."""
    a, b = deref(a), deref(b)
    if a.elems is not None and b.elems is not None:
        if len(a.elems) != len(b.elems):
            return False
        conds = []
        for x, y in zip(a.elems, b.elems):
            if not is_sym(x.v) and not is_sym(y.v):
                if x.v != y.v:
                    return False
            else:
                conds.append(bv(x) == bv(y))
        return z3.And(conds) if conds else True
    if a.elems is None and b.elems is None:
        if a.opaque.ident == b.opaque.ident:
            return True
        return ctx.opaque_eq(a.opaque, b.opaque)
    op, cl = (a, b) if a.elems is None else (b, a)
    # opaque vs concrete: equal only if lengths agree and an (uninterpreted) content match holds
    return ctx.opaque_eq_concrete(op.opaque, cl)


def bytes_cmp(ctx, a, b):
    """Lexicographic Ordering (as an i8 term) of two concrete-length byte sequences."""
    a, b = deref(a), deref(b)
    if a.elems is None or b.elems is None:
        _unsupported("ordering comparison of opaque byte strings")
    la, lb = len(a.elems), len(b.elems)
    res = z3.BitVecVal(-1 if la < lb else (1 if la > lb else 0), 8)
    for i in reversed(range(min(la, lb))):
        x, y = bv(a.elems[i]), bv(b.elems[i])
        res = z3.If(z3.ULT(x, y), z3.BitVecVal(-1, 8), z3.If(z3.UGT(x, y), z3.BitVecVal(1, 8), res))
    res = z3.simplify(res)
    if z3.is_bv_value(res):
        return ordering(wrap("i8", res.as_long()))
    return ordering(res)


def int_cmp(a, b):
    if not is_sym(a.v) and not is_sym(b.v):
        return ordering(-1 if a.v < b.v else (1 if a.v > b.v else 0))
    x, y = bv(a), bv(b)
    lt = (x < y) if a.signed else z3.ULT(x, y)
    return ordering(z3.If(lt, z3.BitVecVal(-1, 8), z3.If(x == y, z3.BitVecVal(0, 8), z3.BitVecVal(1, 8))))


def concretize_ordering(ctx, o):
    """Fork a symbolic Ordering into its three values."""
    if not is_sym(o.v):
        return int(o.v)
    vals = [-1, 0, 1]
    i = ctx.choose_cond([o.v == z3.BitVecVal(v, 8) for v in vals], "ordering")
    return vals[i]


# ------------------------------------------------------------------------------- structural eq

def struct_eq(ctx, a, b):
    """Structural equality as z3 Bool / Python bool (used for std containers and by harnesses).
    Floats compare with IEEE semantics (as derived PartialEq does)."""
    a, b = deref(a), deref(b)
    if isinstance(a, Lazy) or isinstance(b, Lazy):
        if isinstance(a, Lazy) and isinstance(b, Lazy) and a.node is b.node and a.node.kind != "Float":
            return _lazy_self_eq(ctx, a.node)
        a, b = force(ctx, a), force(ctx, b)
    if isinstance(a, Sc) and isinstance(b, Sc):
        if a.ty == "f64":
            return z3.fpEQ(z3.fpBVToFP(_bv64(a), z3.Float64()), z3.fpBVToFP(_bv64(b), z3.Float64()))
        if a.ty == "bool":
            if not is_sym(a.v) and not is_sym(b.v):
                return bool(a.v) == bool(b.v)
            return zbool(a) == zbool(b)
        if not is_sym(a.v) and not is_sym(b.v):
            return int(a.v) == int(b.v)
        return bv(a) == bv(b)
    if isinstance(a, Adt) and isinstance(b, Adt):
        if a.variant != b.variant or len(a.fields) != len(b.fields):
            return False
        return _all(ctx, a.fields, b.fields)
    if isinstance(a, (Tup, Arr)) and type(a) is type(b):
        if len(a.fields) != len(b.fields):
            return False
        return _all(ctx, a.fields, b.fields)
    if isinstance(a, VecV) and isinstance(b, VecV):
        if a.kind in ("vec", "string", "str") and (a.elems is None or b.elems is None or
                                                   all(isinstance(x, Sc) for x in (a.elems + b.elems))):
            return bytes_eq(ctx, a, b)
        if len(a.elems) != len(b.elems):
            return False
        return _all(ctx, a.elems, b.elems)
    if isinstance(a, SetV) and isinstance(b, SetV):
        if len(a.elems) != len(b.elems):
            return False
        return _all(ctx, a.elems, b.elems)
    if isinstance(a, BoxV) and isinstance(b, BoxV):
        return struct_eq(ctx, a.cell.v, b.cell.v)
    if a is UNIT and b is UNIT:
        return True
    _unsupported("struct_eq of %r and %r" % (a, b))


def _lazy_self_eq(ctx, node):
    # an unexplored input compared with itself: equal unless it contains a NaN float somewhere;
    # deciding that needs the shape, so materialise
    return struct_eq(ctx, node.materialize(ctx), node.materialize(ctx))


def _all(ctx, xs, ys):
    conds = []
    for x, y in zip(xs, ys):
        c = struct_eq(ctx, x, y)
        if c is False:
            return False
        if c is not True:
            conds.append(c)
    if not conds:
        return True
    return z3.And(conds) if len(conds) > 1 else conds[0]


def _bv64(sc):
    return sc.v if is_sym(sc.v) else z3.BitVecVal(sc.v, 64)


def to_sc_bool(c):
    return Sc("bool", c)


# ------------------------------------------------------------------------------- dispatcher

def call(eng, ctx, cp, self_ty, trait, generics, args, env):
    m = cp.method
    tn = trait.name if trait is not None else None
    sn = self_ty.name if self_ty is not None else None
    raw = cp.raw

    # ---- environment stubs (the byte layer) -------------------------------------------
    if cp.kind == "free" and m == "from_reader":
        return stub_from_reader(eng, ctx, args)
    if cp.kind == "free" and m == "into_writer":
        return stub_into_writer(eng, ctx, args)

    # ---- panics ------------------------------------------------------------------------
    if cp.kind == "free" and m in ("panic", "panic_fmt", "panic_explicit", "unwrap_failed", "begin_panic",
                                   "expect_failed", "panic_bounds_check", "unreachable_display"):
        msg = ""
        if args and isinstance(args[0], Ref) and isinstance(deref(args[0]), VecV):
            msg = seq_to_str(deref(args[0]))
        _panic("panic", msg, raw)
    if sn == "Arguments" or sn == "Argument":
        return Adt("FmtArgs", None, [])

    # ---- core::cmp::{min, max} on integers ------------------------------------------------
    if cp.kind == "free" and m in ("min", "max") and raw.startswith("core::cmp::") and len(args) == 2 \
            and all(isinstance(a, Sc) for a in args):
        a, b = args
        if not is_sym(a.v) and not is_sym(b.v):
            return (a if int(a.v) <= int(b.v) else b) if m == "min" else (b if int(b.v) >= int(a.v) else a)
        x, y = bv(a), bv(b)
        le = (x <= y) if a.signed else z3.ULE(x, y)
        return Sc(a.ty, z3.If(le, x, y) if m == "min" else z3.If(le, y, x))

    # ---- Try / FromResidual --------------------------------------------------------------
    if tn == "Try" and m == "branch":
        r = args[0]
        if r.ty == "Result":
            if r.variant == "Ok":
                return Adt("ControlFlow", "Continue", [r.fields[0]])
            return Adt("ControlFlow", "Break", [Adt("Result", "Err", [r.fields[0]])])
        if r.ty == "Option":
            if r.variant == "Some":
                return Adt("ControlFlow", "Continue", [r.fields[0]])
            return Adt("ControlFlow", "Break", [OPT_NONE()])
    if tn == "FromResidual" and m == "from_residual":
        r = args[0]
        if r.ty == "Option":
            return OPT_NONE()
        e = r.fields[0]
        target_err = self_ty.args[1] if len(self_ty.args) > 1 else None
        src_err = trait.args[0].args[1] if trait.args and len(trait.args[0].args) > 1 else None
        if target_err is not None and src_err is not None and str(target_err) != str(src_err):
            e = eng.dispatch(ctx, _cp("<%s as From<%s>>::from" % (target_err, src_err)), [e], {})
        return ERR(e)

    # ---- closures are handled in Engine.dispatch; fn pointers: --------------------------
    # ---- From / Into for ciborium types -------------------------------------------------
    if tn in ("From",) and sn == "Value" and m == "from":
        x = args[0]
        if isinstance(x, Sc):
            return Adt("Value", "Integer", [Adt("Integer", None, [widen_i128(x)])])
    if tn == "Into" and m == "into" and isinstance(args[0], Sc) and trait.args and trait.args[0].name == "Integer":
        return Adt("Integer", None, [widen_i128(args[0])])
    if tn in ("TryInto", "TryFrom") and m in ("try_into", "try_from"):
        x = args[0]
        tgt = trait.args[0].name if tn == "TryInto" else sn
        if isinstance(x, Adt) and x.ty == "Integer":
            x = x.fields[0]
        if isinstance(x, Sc) and tgt in INT_BITS:
            return checked_narrow(ctx, x, tgt)

    # ---- integer conversions and arithmetic helpers -----------------------------------------
    if tn in ("From", "Into") and m in ("from", "into") and args and isinstance(deref(args[0]), (Sc, Adt)):
        src = deref(args[0]) if not isinstance(args[0], Sc) else args[0]
        tgt = sn if tn == "From" else (trait.args[0].name if trait.args else None)
        if isinstance(src, Adt) and src.ty == "Integer" and tgt in ("i128",):
            return src.fields[0]
        if isinstance(src, Sc) and tgt in INT_BITS and src.ty in INT_BITS:
            from interp import int_cast
            return int_cast(src, tgt)          # lossless widening (From is only defined for those)
        if isinstance(src, Sc) and tgt == "Integer":
            return Adt("Integer", None, [widen_i128(src)])
        if isinstance(src, Sc) and src.ty == "bool" and tgt in INT_BITS:
            from interp import int_cast
            return int_cast(src, tgt)
    if isinstance(args[0] if args else None, Sc) and sn in INT_BITS and cp.kind == "inherent":
        r = int_method(ctx, m, args)
        if r is not NO_MODEL:
            return r
    if m == "signum" and isinstance(args[0], Sc):
        x = args[0]
        if not is_sym(x.v):
            return Sc(x.ty, (x.v > 0) - (x.v < 0))
        t = bv(x)
        z = z3.BitVecVal(0, x.bits)
        return Sc(x.ty, z3.If(t > z, z3.BitVecVal(1, x.bits), z3.If(t == z, z, z3.BitVecVal(-1, x.bits))))
    if tn == "Ord" and m == "cmp":
        a, b = deref(args[0]), deref(args[1])
        if isinstance(a, Sc) and isinstance(b, Sc):
            return int_cmp(a, b)
        if isinstance(a, VecV) and isinstance(b, VecV):
            return bytes_cmp(ctx, a, b)
        if isinstance(a, (Tup, Arr)) and isinstance(b, (Tup, Arr)):
            return Sc("i8", generic_cmp(eng, ctx, a, b), enum="Ordering")
    if tn == "PartialOrd" and m == "partial_cmp":
        a, b = deref(args[0]), deref(args[1])
        if isinstance(a, Sc) and isinstance(b, Sc):
            return OPT_SOME(int_cmp(a, b))
        if isinstance(a, (Tup, Arr)) and isinstance(b, (Tup, Arr)):
            return OPT_SOME(Sc("i8", generic_cmp(eng, ctx, a, b), enum="Ordering"))
    if tn == "PartialOrd" and m in ("lt", "le", "gt", "ge") and len(args) == 2:
        # the provided comparison operators: defined through partial_cmp of the (dereferenced) operands
        a, b = args
        while isinstance(a, Ref) and isinstance(a.get(), Ref):
            a, b = a.get(), b.get()
        ia, ib = deref(a), deref(b)
        if isinstance(ia, Sc) and isinstance(ib, Sc):
            from interp import binop
            return binop({"lt": "Lt", "le": "Le", "gt": "Gt", "ge": "Ge"}[m], ia, ib)
        ety = self_ty
        while ety is not None and ety.name in ("&", "&mut", "ref") and ety.args:
            ety = ety.args[0]
        if isinstance(ia, Adt) and ety is not None:
            tyname = str(ety)
            r = eng.dispatch(ctx, _cp("<%s as PartialOrd>::partial_cmp" % tyname), [a if isinstance(a, Ref) else Ref(Cell(a)),
                                                                                   b if isinstance(b, Ref) else Ref(Cell(b))], {})
            if r.variant == "None":
                return mk_bool(False)
            o = r.fields[0]
            x = o.v if is_sym(o.v) else z3.BitVecVal(int(o.v), 8)
            zero = z3.BitVecVal(0, 8)
            c = {"lt": x < zero, "le": x <= zero, "gt": x > zero, "ge": x >= zero}[m]
            c = z3.simplify(c)
            return mk_bool(True if z3.is_true(c) else (False if z3.is_false(c) else c))
    if sn == "Ordering" and m == "then":
        a, b = args
        if not is_sym(a.v):
            return a if a.v != 0 else b
        return ordering(z3.If(a.v != 0, a.v, bv(b)))
    if sn == "Ordering" and m == "then_with":
        a = args[0]
        if not is_sym(a.v):
            return a if a.v != 0 else eng.call_fnv(ctx, args[1], [])
        if ctx.branch(a.v != 0, "then_with"):
            return a
        return eng.call_fnv(ctx, args[1], [])
    if sn == "Ordering" and m in ("is_eq", "is_ne", "is_lt", "is_gt", "is_le", "is_ge"):
        a = args[0]
        x = a.v if is_sym(a.v) else z3.BitVecVal(int(a.v), 8)
        zero = z3.BitVecVal(0, 8)
        c = {"is_eq": x == zero, "is_ne": x != zero, "is_lt": x < zero, "is_gt": x > zero,
             "is_le": x <= zero, "is_ge": x >= zero}[m]
        c = z3.simplify(c)
        return mk_bool(True if z3.is_true(c) else (False if z3.is_false(c) else c))
    if sn == "Ordering" and m == "reverse":
        a = args[0]
        return ordering(-a.v)
    if tn == "Default" and m == "default":
        return default_of(eng, ctx, self_ty)

    # ---- PartialEq -------------------------------------------------------------------------
    if tn == "PartialEq" and m in ("eq", "ne"):
        a, b = args
        # `<&T as PartialEq>::eq(&&a, &&b)`: compare the referents with T's own PartialEq
        inner = self_ty
        while inner is not None and inner.name in ("&", "&mut"):
            inner = inner.args[0]
        a, b = deref(a), deref(b)
        r = None
        if inner is not None and inner is not self_ty and not isinstance(a, (Sc, VecV)):
            tgt = eng.impls.resolve(_cp("<%s as PartialEq>::eq" % inner), inner, Ty("PartialEq"), ())
            if tgt is not None:
                res = eng.run(ctx, tgt[0], [Ref(Cell(a)), Ref(Cell(b))], tgt[1])
                r = res.v
        if r is None:
            r = elementwise_eq(eng, ctx, inner if inner is not None else self_ty, a, b)
        if m == "ne":
            r = (not r) if isinstance(r, bool) else z3.Not(r)
        return Sc("bool", r)

    # ---- Clone ---------------------------------------------------------------------------
    if tn == "Clone" and m == "clone":
        return deep_clone(deref(args[0]))
    if (tn == "ToString" and m == "to_string") or (tn in ("From", "Into") and sn == "String" and m in ("from", "into")
                                                   and isinstance(deref(args[0]), VecV)):
        v = deref(args[0])
        return VecV(list(v.elems) if v.elems is not None else None, v.opaque, "string")
    if tn == "ToOwned" and m == "to_owned":
        v = deref(args[0])
        return VecV(list(v.elems) if v.elems is not None else None, v.opaque,
                    "string" if v.kind in ("str", "string") else "vec")
    if tn in ("Deref", "DerefMut") and m in ("deref", "deref_mut"):
        v = args[0]
        inner = v.get()
        if isinstance(inner, BoxV):
            return Ref(inner.cell)
        return v          # Vec<T> -> [T], String -> str: same representation
    if tn == "AsRef" and m == "as_ref":
        return args[0]
    if tn == "Drop" and m == "drop":
        return UNIT
    if cp.kind == "free" and m in ("drop", "forget"):
        return UNIT

    # ---- Box / vec! lowering -----------------------------------------------------------------
    if sn == "Box" and m == "new":
        return BoxV(Cell(args[0]))
    if sn == "Box" and m == "new_uninit":
        return BoxV(Cell(UNINIT))
    if m == "box_assume_init_into_vec_unsafe":
        arr = args[0].cell.v
        kind = "vec"
        return VecV(list(arr.fields), None, kind)
    if m == "into_vec" and isinstance(args[0], BoxV):
        return VecV(list(args[0].cell.v.fields), None, "vec")

    # ---- Vec / slice / String ------------------------------------------------------------------
    if sn in ("Vec", "slice", "String", "str", "array"):
        r = vec_model(eng, ctx, cp, self_ty, trait, m, args)
        if r is not NO_MODEL:
            return r
    if tn in ("Index", "IndexMut") and m in ("index", "index_mut") and isinstance(deref(args[1]), Adt) \
            and deref(args[1]).ty in RANGE_TYPES and isinstance(deref(args[0]), (VecV, Arr)) \
            and not (isinstance(deref(args[0]), VecV) and deref(args[0]).kind in ("str", "string")):
        return Ref(Cell(slice_range(ctx, deref(args[0]), deref(args[1]), raw)))
    if tn in ("Index", "IndexMut") and m in ("index", "index_mut"):
        v, i = deref(args[0]), args[1]
        if isinstance(v, Arr):
            v = VecV(v.fields, None, "vec")
        if isinstance(v, VecV) and v.elems is not None and any(isinstance(e, Opaque) for e in v.elems) and isinstance(i, Sc):
            r = concat_model(eng, ctx, cp, "get", v, [args[0], i])
            if r.variant == "None":
                _panic("index", "index out of bounds", raw)
            return r.fields[0]
        if isinstance(i, Sc) and not is_sym(i.v):
            if v.elems is None:
                _unsupported("index into opaque sequence")
            if not (0 <= i.v < len(v.elems)):
                _panic("index", "index out of bounds: the len is %d but the index is %d" % (len(v.elems), i.v), raw)
            return Ref(v.elems, int(i.v))
        if isinstance(i, Sc):
            # symbolic index into a concrete-length vector: fork over in-range values / out of range
            n = len(v.elems)
            conds = [i.v == z3.BitVecVal(k, i.bits) for k in range(n)] + [z3.UGE(i.v, z3.BitVecVal(n, i.bits))]
            k = ctx.choose_cond(conds, "index")
            if k == n:
                _panic("index", "index out of bounds", raw)
            return Ref(v.elems, k)

    # ---- iterators -------------------------------------------------------------------------------
    if tn == "IntoIterator" and m == "into_iter":
        v = args[0]
        if isinstance(v, IterV):
            return v
        if isinstance(v, Ref) and isinstance(deref(v), VecV):
            vv = deref(v)
            if vv.elems is None:
                _unsupported("iteration over opaque byte string")
            return IterV([Ref(vv.elems, i) for i in range(len(vv.elems))])
        if isinstance(v, VecV):
            if v.elems is None:
                _unsupported("iteration over opaque byte string")
            return IterV(list(v.elems))
        if isinstance(v, SetV):
            return IterV(list(v.elems))
        if isinstance(v, Adt) and v.ty == "Range":
            return range_iter(v)
    if tn == "Iterator":
        it = deref(args[0])
        if isinstance(it, Adt) and it.ty == "Range":
            it = range_iter(it)
        if m == "next":
            return iter_next(eng, ctx, it)
        if m == "map":
            return IterV(inner=it, fn=args[1])
        if m == "rev":
            if it.items is None:
                _unsupported("rev of adaptor")
            r = IterV(list(reversed(it.items[it.pos:])))
            return r
        if m == "collect":
            return iter_collect(eng, ctx, it, generics[0] if generics else None)
        if m in ("any", "all", "position", "find", "filter", "enumerate", "zip", "skip", "take", "last",
                 "for_each", "fold", "sum", "cloned", "copied", "peekable", "chain", "flatten", "max", "min"):
            r = iter_adaptor(eng, ctx, it, m, args)
            if r is not NO_MODEL:
                return r
        if m == "count":
            if it.items is None and it.fn == "matches":
                return it.inner
            n = 0
            while True:
                x = iter_next(eng, ctx, it)
                if x.variant == "None":
                    return Sc("usize", n)
                n += 1

    # ---- BTreeMap (ordered association list driven by the key type's Ord) ---------------------
    if sn == "BTreeMap":
        r = map_model(eng, ctx, self_ty, m, args)
        if r is not NO_MODEL:
            return r
    # ---- BTreeSet ------------------------------------------------------------------------------
    if sn == "BTreeSet":
        r = set_model(eng, ctx, self_ty, m, args)
        if r is not NO_MODEL:
            return r

    # ---- ranges -----------------------------------------------------------------------------------
    if sn == "RangeInclusive" and m == "new":
        return Adt("RangeInclusive", None, [args[0], args[1]])
    if sn in ("Range", "RangeInclusive", "RangeFrom", "RangeTo", "RangeToInclusive") and m == "contains":
        from interp import binop
        r, x = deref(args[0]), deref(args[1])
        conds = []
        if sn in ("Range", "RangeInclusive", "RangeFrom"):
            conds.append(binop("Le", r.fields[0], x))
        if sn in ("Range", "RangeTo"):
            conds.append(binop("Lt", x, r.fields[-1]))
        if sn in ("RangeInclusive", "RangeToInclusive"):
            conds.append(binop("Le", x, r.fields[-1]))
        out = conds[0]
        for c in conds[1:]:
            out = binop("BitAnd", out, c)
        return out
    # ---- Option / Result -------------------------------------------------------------------------
    if sn == "Option":
        o = deref(args[0]) if args else None
        if m == "is_none":
            return mk_bool(o.variant == "None")
        if m == "is_some":
            return mk_bool(o.variant == "Some")
        if m == "as_ref":
            if o.variant == "None":
                return OPT_NONE()
            return OPT_SOME(Ref(o.fields, 0))
        if m in ("unwrap", "expect"):
            o = args[0]
            if o.variant == "None":
                _panic("unwrap", "called Option::%s on a None value" % m, raw)
            return o.fields[0]
        if m == "or":
            return args[0] if args[0].variant == "Some" else args[1]
        if m == "or_else":
            return args[0] if args[0].variant == "Some" else eng.call_fnv(ctx, args[1], [])
        if m in ("as_deref", "as_deref_mut"):
            if o.variant == "None":
                return OPT_NONE()
            return OPT_SOME(Ref(o.fields, 0))
        if m == "filter":
            o = args[0]
            if o.variant == "None":
                return o
            keep = eng.call_fnv(ctx, args[1], [Ref(o.fields, 0)])
            return o if _truth(ctx, keep, "option-filter") else OPT_NONE()
        if m == "unwrap_or":
            o = args[0]
            return o.fields[0] if o.variant == "Some" else args[1]
        if m == "unwrap_or_default":
            o = args[0]
            return o.fields[0] if o.variant == "Some" else default_of(eng, ctx, self_ty.args[0])
        if m == "unwrap_or_else":
            o = args[0]
            return o.fields[0] if o.variant == "Some" else eng.call_fnv(ctx, args[1], [])
        if m == "map":
            o = args[0]
            return OPT_SOME(eng.call_fnv(ctx, args[1], [o.fields[0]])) if o.variant == "Some" else o
        if m == "and_then":
            o = args[0]
            return eng.call_fnv(ctx, args[1], [o.fields[0]]) if o.variant == "Some" else o
        if m in ("ok_or",):
            o = args[0]
            return OK(o.fields[0]) if o.variant == "Some" else ERR(args[1])
        if m == "ok_or_else":
            o = args[0]
            return OK(o.fields[0]) if o.variant == "Some" else ERR(eng.call_fnv(ctx, args[1], []))
        if m == "as_mut":
            if o.variant == "None":
                return OPT_NONE()
            return OPT_SOME(Ref(o.fields, 0))
        if m == "take":
            ref = args[0]
            cur = ref.get()
            ref.set(OPT_NONE())
            return cur
        if m == "cloned" or m == "copied":
            o = args[0]
            return OPT_SOME(deep_clone(deref(o.fields[0]))) if o.variant == "Some" else o
        if m == "is_some_and":
            o = args[0]
            return eng.call_fnv(ctx, args[1], [o.fields[0]]) if o.variant == "Some" else mk_bool(False)
        if m == "is_none_or":
            o = args[0]
            return eng.call_fnv(ctx, args[1], [o.fields[0]]) if o.variant == "Some" else mk_bool(True)
        if m == "map_or":
            o = args[0]
            return eng.call_fnv(ctx, args[2], [o.fields[0]]) if o.variant == "Some" else args[1]
        if m == "map_or_else":
            o = args[0]
            return eng.call_fnv(ctx, args[2], [o.fields[0]]) if o.variant == "Some" else eng.call_fnv(ctx, args[1], [])
        if m == "and":
            return args[1] if args[0].variant == "Some" else args[0]
        if m == "xor":
            a, b = args[0], args[1]
            if (a.variant == "Some") != (b.variant == "Some"):
                return a if a.variant == "Some" else b
            return OPT_NONE()
        if m == "zip":
            a, b = args[0], args[1]
            return OPT_SOME(Tup([a.fields[0], b.fields[0]])) if a.variant == "Some" and b.variant == "Some" else OPT_NONE()
        if m == "inspect":
            if args[0].variant == "Some":
                eng.call_fnv(ctx, args[1], [Ref(args[0].fields, 0)])
            return args[0]
        if m in ("get_or_insert_with", "get_or_insert"):
            cur = deref(args[0])
            if cur.variant == "None":
                newv = eng.call_fnv(ctx, args[1], []) if m == "get_or_insert_with" else args[1]
                cur.variant, cur.fields = "Some", [newv]
            return Ref(cur.fields, 0)
        if m in ("insert", "replace") and isinstance(args[0], Ref):
            cur = deref(args[0])
            old = Adt("Option", cur.variant, list(cur.fields))
            cur.variant, cur.fields = "Some", [args[1]]
            return Ref(cur.fields, 0) if m == "insert" else old
    if sn == "Result":
        r = args[0]
        if m in ("unwrap", "expect"):
            if r.variant == "Err":
                _panic("unwrap", "called Result::%s on an Err value" % m, raw)
            return r.fields[0]
        if m == "map_err":
            if r.variant == "Ok":
                return r
            return ERR(eng.call_fnv(ctx, args[1], [r.fields[0]]))
        if m == "is_ok":
            return mk_bool(deref(r).variant == "Ok")
        if m == "is_err":
            return mk_bool(deref(r).variant == "Err")
        if m == "ok":
            return OPT_SOME(r.fields[0]) if r.variant == "Ok" else OPT_NONE()
        if m == "err":
            return OPT_SOME(r.fields[0]) if r.variant == "Err" else OPT_NONE()
        if m == "map":
            return OK(eng.call_fnv(ctx, args[1], [r.fields[0]])) if r.variant == "Ok" else r
        if m == "and_then":
            return eng.call_fnv(ctx, args[1], [r.fields[0]]) if r.variant == "Ok" else r
        if m == "or_else":
            return eng.call_fnv(ctx, args[1], [r.fields[0]]) if r.variant == "Err" else r
        if m == "unwrap_or":
            return r.fields[0] if r.variant == "Ok" else args[1]
        if m == "unwrap_or_default":
            return r.fields[0] if r.variant == "Ok" else default_of(eng, ctx, self_ty.args[0])
        if m == "unwrap_or_else":
            return r.fields[0] if r.variant == "Ok" else eng.call_fnv(ctx, args[1], [r.fields[0]])
        if m == "as_ref":
            rr = deref(args[0])
            return Adt("Result", rr.variant, [Ref(rr.fields, 0)])
        if m == "map_or":
            return eng.call_fnv(ctx, args[2], [r.fields[0]]) if r.variant == "Ok" else args[1]
        if m == "map_or_else":
            return eng.call_fnv(ctx, args[2 if r.variant == "Ok" else 1], [r.fields[0]])
        if m in ("is_ok_and", "is_err_and"):
            want = "Ok" if m == "is_ok_and" else "Err"
            return eng.call_fnv(ctx, args[1], [r.fields[0]]) if r.variant == want else mk_bool(False)
        if m == "and":
            return args[1] if r.variant == "Ok" else r
        if m == "or":
            return r if r.variant == "Ok" else args[1]
        if m in ("expect_err", "unwrap_err"):
            if r.variant == "Ok":
                _panic("unwrap", "called Result::%s on an Ok value" % m, raw)
            return r.fields[0]

    # ---- str / char helpers ------------------------------------------------------------------------
    if sn in ("str", "String") and args:
        r = str_model(eng, ctx, cp, m, args)
        if r is not NO_MODEL:
            return r
    if sn == "char" and args:
        r = char_model(ctx, m, args)
        if r is not NO_MODEL:
            return r
    if tn == "Index" and m == "index" and isinstance(deref(args[0]), VecV) and deref(args[0]).kind in ("str", "string") \
            and isinstance(deref(args[1]), Adt):
        return str_index_range(ctx, args[0], args[1], raw)
    return NO_MODEL


_CP_CACHE = {}


def _cp(s):
    return parse_callpath(s)


def int_method(ctx, m, args):
    """Inherent integer methods (documented semantics; wrapping where the docs say so)."""
    from interp import binop, int_cast, unop
    x = args[0]
    ty, bits, signed = x.ty, x.bits, x.signed
    uty = "u" + ty[1:] if signed else ty

    def lit(n):
        return Sc(ty, wrap(ty, n))
    if m in ("wrapping_add", "wrapping_sub", "wrapping_mul"):
        return binop({"wrapping_add": "Add", "wrapping_sub": "Sub", "wrapping_mul": "Mul"}[m], x, args[1])
    if m in ("checked_add", "checked_sub", "checked_mul"):
        t = binop({"checked_add": "AddWithOverflow", "checked_sub": "SubWithOverflow",
                   "checked_mul": "MulWithOverflow"}[m], x, args[1])
        ovf = t.fields[1]
        if ctx.branch(zbool(ovf) if is_sym(ovf.v) else bool(ovf.v), "int-overflow"):
            return OPT_NONE()
        return OPT_SOME(t.fields[0])
    if m in ("overflowing_add", "overflowing_sub", "overflowing_mul"):
        return binop({"overflowing_add": "AddWithOverflow", "overflowing_sub": "SubWithOverflow",
                      "overflowing_mul": "MulWithOverflow"}[m], x, args[1])
    if m in ("saturating_add", "saturating_sub"):
        t = binop("AddWithOverflow" if m == "saturating_add" else "SubWithOverflow", x, args[1])
        ovf = t.fields[1]
        if not ctx.branch(zbool(ovf) if is_sym(ovf.v) else bool(ovf.v), "int-saturate"):
            return t.fields[0]
        lo = -(1 << (bits - 1)) if signed else 0
        hi = (1 << (bits - 1)) - 1 if signed else (1 << bits) - 1
        if not signed:
            return Sc(ty, hi if m == "saturating_add" else lo)
        neg = binop("Lt", args[1], Sc(ty, 0))
        up = (m == "saturating_add") != bool(ctx.branch(zbool(neg) if is_sym(neg.v) else bool(neg.v), "sat-dir"))
        return Sc(ty, hi if up else lo)
    if m in ("is_negative", "is_positive"):
        return binop("Lt" if m == "is_negative" else "Gt", x, Sc(ty, 0))
    if m in ("abs", "wrapping_abs"):
        neg = binop("Lt", x, Sc(ty, 0))
        if not is_sym(x.v):
            return lit(abs(int(x.v)))
        return Sc(ty, z3.If(neg.v, -x.v, x.v))
    if m == "unsigned_abs":
        if not is_sym(x.v):
            return Sc(uty, abs(int(x.v)))
        return Sc(uty, z3.If(x.v < 0, -x.v, x.v))
    if m in ("min", "max") and len(args) == 2:
        c = binop("Lt" if m == "min" else "Gt", x, args[1])
        if not is_sym(c.v):
            return x if c.v else args[1]
        return Sc(ty, z3.If(c.v, bv(x), bv(args[1])))
    if m == "pow" and not is_sym(x.v) and not is_sym(args[1].v):
        return lit(int(x.v) ** int(args[1].v))
    if m in ("to_be_bytes", "to_le_bytes"):
        n = bits // 8
        if is_sym(x.v):
            bs = [Sc("u8", z3.simplify(z3.Extract(8 * i + 7, 8 * i, x.v))) for i in range(n)]
        else:
            v = int(x.v) & ((1 << bits) - 1)
            bs = [Sc("u8", (v >> (8 * i)) & 0xFF) for i in range(n)]
        if m == "to_be_bytes":
            bs.reverse()
        return Arr(bs)
    if m == "leading_zeros" and not is_sym(x.v):
        v = int(x.v) & ((1 << bits) - 1)
        return Sc("u32", bits - v.bit_length())
    if m == "count_ones" and not is_sym(x.v):
        return Sc("u32", bin(int(x.v) & ((1 << bits) - 1)).count("1"))
    return NO_MODEL


def widen_i128(x):
    if not is_sym(x.v):
        return Sc("i128", int(x.v))
    t = x.v
    return Sc("i128", z3.SignExt(128 - x.bits, t) if x.signed else z3.ZeroExt(128 - x.bits, t))


def checked_narrow(ctx, x, tgt):
    """`T::try_from(x)`: Ok(exact value) iff representable, else Err(TryFromIntError)."""
    tb = INT_BITS[tgt]
    signed_t = tgt[0] == "i"
    lo = -(1 << (tb - 1)) if signed_t else 0
    hi = (1 << (tb - 1)) - 1 if signed_t else (1 << tb) - 1
    if not is_sym(x.v):
        if lo <= x.v <= hi:
            return OK(Sc(tgt, int(x.v)))
        return ERR(Adt("TryFromIntError", None, [UNIT]))
    t = x.v
    fb = x.bits
    if x.signed:
        inr = z3.And(t >= z3.BitVecVal(lo, fb), t <= z3.BitVecVal(hi, fb)) if fb > tb or not signed_t else True
        if fb <= tb and not signed_t:
            inr = t >= z3.BitVecVal(0, fb)
    else:
        inr = z3.ULE(t, z3.BitVecVal(hi, fb)) if hi < (1 << fb) - 1 else True
    if ctx.branch(inr, "narrow-%s" % tgt):
        if tb <= fb:
            return OK(Sc(tgt, z3.Extract(tb - 1, 0, t)))
        return OK(Sc(tgt, z3.SignExt(tb - fb, t) if x.signed else z3.ZeroExt(tb - fb, t)))
    return ERR(Adt("TryFromIntError", None, [UNIT]))


def default_of(eng, ctx, ty):
    n = ty.name
    if n == "Vec":
        return VecV([], None, "vec")
    if n == "String":
        return VecV([], None, "string")
    if n == "Option":
        return OPT_NONE()
    if n == "BTreeSet":
        return SetV([])
    if n == "BTreeMap":
        return MapV([])
    if n in INT_BITS:
        return Sc(n, 0)
    if n == "bool":
        return Sc("bool", False)
    _unsupported("Default for %s" % ty)


def elementwise_eq(eng, ctx, ty, a, b):
    """PartialEq of std containers: delegates to the element type's own PartialEq when coset
    defines one (so a hand-written impl is executed), structural otherwise."""
    a, b = deref(a), deref(b)
    if ty is not None and ty.name in ("Vec", "Option", "BTreeSet", "slice") and ty.args:
        et = ty.args[0]
        tgt = eng.impls.resolve(_cp("<%s as PartialEq>::eq" % et), et, Ty("PartialEq"), ())
        if tgt is not None:
            if ty.name == "Option":
                if a.variant != b.variant:
                    return False
                if a.variant == "None":
                    return True
                xs, ys = [a.fields[0]], [b.fields[0]]
            else:
                xs, ys = a.elems, b.elems
                if len(xs) != len(ys):
                    return False
            conds = []
            for x, y in zip(xs, ys):
                r = eng.run(ctx, tgt[0], [Ref(Cell(x)), Ref(Cell(y))], tgt[1]).v
                if r is False:
                    return False
                if r is not True:
                    conds.append(r)
            return z3.And(conds) if conds else True
    return struct_eq(ctx, a, b)


def seq_to_str(v):
    try:
        return bytes(int(x.v) for x in v.elems).decode("utf-8", "replace")
    except Exception:
        return repr(v)


# ------------------------------------------------------------------------------- Vec

def _opaque_read(what):
    from interp import OpaqueRead
    raise OpaqueRead("%s reaches into a byte string modelled without content" % what)


def concat_model(eng, ctx, cp, m, v, args):
    """Reads on a byte string that is a concatenation of symbolic single bytes followed by opaque
    segments (raw input whose first bytes are modelled): everything that stays inside the byte prefix
    is exact, anything that needs the content of an opaque segment raises OpaqueRead."""
    k = 0
    while k < len(v.elems) and not isinstance(v.elems[k], Opaque):
        k += 1
    head, kind = v.elems[:k], v.kind

    def conc_index(i, what):
        """concrete value of an index / length operand, forking over the values inside the prefix"""
        if not is_sym(i.v):
            return int(i.v)
        conds = [i.v == z3.BitVecVal(j, i.bits) for j in range(k + 1)] + [z3.UGT(i.v, z3.BitVecVal(k, i.bits))]
        j = ctx.choose_cond(conds, what)
        if j > k:
            # beyond the modelled prefix: in range of the whole string or not?
            n = seq_len(ctx, v)
            if ctx.branch(z3.ULE(i.v, n.v), what + "-in-range"):
                _opaque_read(what)
            return None
        return j

    def total_ge(n):
        """is the whole string at least n bytes long? (n concrete)"""
        ln = seq_len(ctx, v)
        if not is_sym(ln.v):
            return int(ln.v) >= n
        return ctx.branch(z3.UGE(ln.v, z3.BitVecVal(n, 64)), "len>=%d" % n)

    if m == "first":
        return OPT_SOME(Ref(v.elems, 0)) if k >= 1 else (_opaque_read("first") if total_ge(1) else OPT_NONE())
    if m == "split_first":
        if k >= 1:
            return OPT_SOME(Tup([Ref(v.elems, 0), Ref(Cell(VecV(v.elems[1:], None, kind)))]))
        return _opaque_read("split_first") if total_ge(1) else OPT_NONE()
    if m in ("last", "split_last", "ends_with", "strip_suffix", "iter", "to_vec", "contains", "reverse") and k < len(v.elems):
        _opaque_read(m)
    if m == "get" and isinstance(args[1], Sc):
        j = conc_index(args[1], "get")
        if j is None:
            return OPT_NONE()
        if j < k:
            return OPT_SOME(Ref(v.elems, j))
        return _opaque_read("get") if total_ge(j + 1) else OPT_NONE()
    if m in ("starts_with", "strip_prefix"):
        o = deref(args[1])
        if isinstance(o, Arr):
            o = VecV(o.fields, None, "vec")
        if o.elems is None or any(isinstance(e, Opaque) for e in o.elems):
            _opaque_read(m)
        n = len(o.elems)
        if n > k:
            if not total_ge(n):
                return mk_bool(False) if m == "starts_with" else OPT_NONE()
            _opaque_read(m)
        c = bytes_eq(ctx, VecV(v.elems[:n], None, "vec"), o)
        if m == "starts_with":
            return mk_bool(c)
        hit = c if isinstance(c, bool) else ctx.branch(c, "strip_prefix")
        return OPT_SOME(Ref(Cell(VecV(v.elems[n:], None, kind)))) if hit else OPT_NONE()
    if m in ("split_at", "split_at_checked") and isinstance(args[1], Sc):
        j = conc_index(args[1], "split_at")
        if j is None:
            if m == "split_at":
                _panic("index", "mid > len", cp.raw)
            return OPT_NONE()
        pair = Tup([Ref(Cell(VecV(v.elems[:j], None, kind))), Ref(Cell(VecV(v.elems[j:], None, kind)))])
        return pair if m == "split_at" else OPT_SOME(pair)
    return NO_MODEL


def concat_range(ctx, v, rv, raw, checked=False):
    """`&v[a..b]` / `v.get(a..b)` on a byte prefix followed by opaque segments."""
    k = 0
    while k < len(v.elems) and not isinstance(v.elems[k], Opaque):
        k += 1
    ty = rv.ty

    def conc(x, what):
        if not is_sym(x.v):
            return int(x.v)
        conds = [x.v == z3.BitVecVal(j, x.bits) for j in range(k + 1)] + [z3.UGT(x.v, z3.BitVecVal(k, x.bits))]
        j = ctx.choose_cond(conds, what)
        if j > k:
            n = seq_len(ctx, v)
            if ctx.branch(z3.ULE(x.v, n.v), what + "-in-range"):
                _opaque_read("range index")
            return None
        return j
    if ty == "RangeFrom":
        a = conc(rv.fields[0], "range-start")
        ok, lo, hi = a is not None, a, None
    elif ty == "RangeTo":
        b = conc(rv.fields[0], "range-end")
        ok, lo, hi = b is not None, 0, b
    elif ty == "Range":
        a, b = conc(rv.fields[0], "range-start"), conc(rv.fields[1], "range-end")
        ok, lo, hi = a is not None and b is not None and a <= b, a, b
    elif ty == "RangeFull":
        ok, lo, hi = True, 0, None
    else:
        _unsupported("inclusive range on a byte string with opaque segments")
    if not ok:
        if checked:
            return OPT_NONE()
        _panic("index", "range out of bounds for slice", raw)
    if hi is not None and hi > k:
        _opaque_read("range index")
    out = VecV(v.elems[lo:hi] if hi is not None else v.elems[lo:], None, v.kind)
    return OPT_SOME(Ref(Cell(out))) if checked else Ref(Cell(out))


def vec_model(eng, ctx, cp, self_ty, trait, m, args):
    tn = trait.name if trait is not None else None
    if m == "new" and not args:
        return VecV([], None, "string" if self_ty.name == "String" else "vec")
    if m == "with_capacity":
        return VecV([], None, "vec")
    if not args:
        return NO_MODEL
    v = deref(args[0])
    if isinstance(v, Arr):
        v = VecV(v.fields, None, "vec")          # fixed-size array: same element list, by reference
    if not isinstance(v, VecV):
        return NO_MODEL
    if m == "len":
        return seq_len(ctx, v)
    if m == "is_empty":
        return seq_is_empty(ctx, v)
    if v.elems is None and v.kind != "string" and m in (
            "first", "split_first", "get", "starts_with", "strip_prefix", "split_at", "split_at_checked", "last",
            "split_last", "ends_with", "strip_suffix", "contains"):
        v = VecV([v.opaque], None, v.kind)          # no modelled bytes: every content read is an OpaqueRead
    if v.elems is not None and any(isinstance(e, Opaque) for e in v.elems) and v.kind != "string":
        if m == "get" and len(args) > 1 and isinstance(deref(args[1]), Adt) and deref(args[1]).ty in RANGE_TYPES:
            return concat_range(ctx, v, deref(args[1]), cp.raw, checked=True)
        r = concat_model(eng, ctx, cp, m, v, args)
        if r is not NO_MODEL:
            return r
    if m == "push":
        if v.elems is None:
            v.elems, v.opaque = [v.opaque], None       # becomes a concatenation
        v.elems.append(args[1])
        return UNIT
    if m == "clear":
        v.elems = []
        v.opaque = None
        return UNIT
    if m == "remove":
        i = args[1]
        if is_sym(i.v):
            _unsupported("Vec::remove with symbolic index")
        if v.elems is None:
            _unsupported("Vec::remove on opaque byte string")
        if not (0 <= i.v < len(v.elems)):
            _panic("index", "removal index (is %d) should be < len (is %d)" % (i.v, len(v.elems)), cp.raw)
        return v.elems.pop(int(i.v))
    if m == "to_vec":
        return VecV(list(v.elems) if v.elems is not None else None, v.opaque, "vec")
    if m == "reverse":
        v.elems.reverse()
        return UNIT
    if m in ("binary_search", "binary_search_by") and v.elems is not None:
        return binary_search(eng, ctx, self_ty, v, args[1], m == "binary_search_by")
    if m == "dedup" and v.elems is not None:
        out = []
        et = self_ty.args[0] if self_ty.args else None
        for x in v.elems:
            if out:
                c = elementwise_eq(eng, ctx, Ty("Option", [et]) if et is not None else None,
                                   OPT_SOME(out[-1]), OPT_SOME(x)) if et is not None else struct_eq(ctx, out[-1], x)
                same = c if isinstance(c, bool) else ctx.branch(c, "dedup-eq")
                if same:
                    continue
            out.append(x)
        v.elems[:] = out
        return UNIT
    if m == "sort" and v.elems is not None:
        et = self_ty.args[0]
        cmpf = FnV(py=lambda c, a: eng.dispatch(c, _cp("<%s as Ord>::cmp" % et), a, {}))
        return sort_by(eng, ctx, v, cmpf)
    if m in ("sort_by_key", "sort_by_cached_key", "sort_unstable_by_key") and v.elems is not None:
        keyed = [(eng.call_fnv(ctx, args[1], [Ref(Cell(x))]), x) for x in v.elems]
        out = []
        for kx in keyed:
            k = len(out)
            while k > 0 and generic_cmp(eng, ctx, out[k - 1][0], kx[0]) > 0:
                k -= 1
            out.insert(k, kx)
        v.elems[:] = [x for _, x in out]
        return UNIT
    if m in ("copy_from_slice", "clone_from_slice") and v.elems is not None:
        src = deref(args[1])
        if isinstance(src, Arr):
            src = VecV(src.fields, None, "vec")
        if src.elems is None or any(isinstance(e, Opaque) for e in src.elems):
            _unsupported("copy_from_slice from an opaque byte string")
        if len(src.elems) != len(v.elems):
            _panic("copy_from_slice", "source slice length (%d) does not match destination slice length (%d)"
                   % (len(src.elems), len(v.elems)), cp.raw)
        for i in range(len(v.elems)):
            v.elems[i] = src.elems[i]
        return UNIT
    if m == "sort_by":
        return sort_by(eng, ctx, v, args[1])
    if m in ("as_slice", "as_bytes", "as_str", "as_mut_slice"):
        return args[0]
    if m in ("iter", "iter_mut"):
        if v.elems is None:
            _unsupported("iteration over opaque byte string")
        return IterV([Ref(v.elems, i) for i in range(len(v.elems))])
    if m == "windows" and v.elems is not None and v.kind not in ("str", "string") and not is_sym(args[1].v):
        # core::slice::windows(n): the overlapping sub-slices of length n, in order (views, not copies)
        n = int(args[1].v)
        if n == 0:
            _panic("explicit", "window size must be non-zero", cp.raw)
        if any(isinstance(e, Opaque) for e in v.elems):
            _unsupported("windows over a byte string with an opaque segment")
        return IterV([Ref(Cell(VecV(ViewList(v.elems, i, i + n), None, v.kind)))
                      for i in range(max(0, len(v.elems) - n + 1))])
    if m == "pop":
        if not v.elems:
            return OPT_NONE()
        return OPT_SOME(v.elems.pop())
    if m == "insert" and v.elems is not None and not is_sym(args[1].v):
        i = int(args[1].v)
        if i > len(v.elems):
            _panic("index", "insertion index (is %d) should be <= len (is %d)" % (i, len(v.elems)), cp.raw)
        v.elems.insert(i, args[2])
        return UNIT
    if m == "extend_from_slice":
        o = deref(args[1])
        if isinstance(o, Arr):
            o = VecV(o.fields, None, "vec")
        if v.elems is None:
            v.elems, v.opaque = [v.opaque], None
        if o.elems is None:
            if not v.elems:
                v.elems, v.opaque = None, o.opaque
            else:
                v.elems.append(o.opaque)
        else:
            v.elems.extend(o.elems)
        return UNIT
    if m in ("first", "last") and v.elems is not None:
        if not v.elems:
            return OPT_NONE()
        return OPT_SOME(Ref(v.elems, 0 if m == "first" else len(v.elems) - 1))
    if m == "get" and v.elems is not None and isinstance(args[1], Sc) and not is_sym(args[1].v):
        i = int(args[1].v)
        return OPT_SOME(Ref(v.elems, i)) if 0 <= i < len(v.elems) else OPT_NONE()
    if m == "get" and v.elems is not None and isinstance(args[1], Sc):
        # symbolic index into a concrete-length sequence: one branch per element, one for out of range
        i, n = args[1], len(v.elems)
        conds = [i.v == z3.BitVecVal(k, i.bits) for k in range(n)] + [z3.UGE(i.v, z3.BitVecVal(n, i.bits))]
        k = ctx.choose_cond(conds, "slice-get")
        return OPT_SOME(Ref(v.elems, k)) if k < n else OPT_NONE()
    if m in ("extend", "append") and v.elems is not None:
        src = args[1]
        inner = deref(src)
        if isinstance(inner, VecV) and inner.elems is not None:
            items = list(inner.elems)
            if m == "append":
                inner.elems[:] = []
        elif isinstance(src, IterV):
            items = _drain(eng, ctx, src)
        elif isinstance(inner, SetV):
            items = list(inner.elems)
        elif isinstance(inner, Adt) and inner.ty == "Option":
            items = [inner.fields[0]] if inner.variant == "Some" else []
        else:
            return NO_MODEL
        v.elems.extend(items)
        return UNIT
    if m == "swap" and v.elems is not None and not is_sym(args[1].v) and not is_sym(args[2].v):
        i, j = int(args[1].v), int(args[2].v)
        if max(i, j) >= len(v.elems):
            _panic("index", "swap index out of bounds", cp.raw)
        v.elems[i], v.elems[j] = v.elems[j], v.elems[i]
        return UNIT
    if m == "truncate" and v.elems is not None and not is_sym(args[1].v):
        del v.elems[int(args[1].v):]
        return UNIT
    if m == "contains" and v.elems is not None and v.kind not in ("str", "string"):
        x = deref(args[1])
        conds = []
        for e in v.elems:
            c = struct_eq(ctx, e, x)
            if c is True:
                return mk_bool(True)
            if c is not False:
                conds.append(c)
        return mk_bool(z3.Or(conds) if conds else False)
    if m == "starts_with" and v.elems is not None:
        o = deref(args[1])
        if o.elems is not None:
            if len(o.elems) > len(v.elems):
                return mk_bool(False)
            return mk_bool(bytes_eq(ctx, VecV(v.elems[:len(o.elems)], None, "vec"), o))
    if v.elems is not None and v.kind not in ("str", "string") and m in ("split_first", "strip_prefix", "split_at",
                                                                         "split_at_checked"):
        return concat_model(eng, ctx, cp, m, v, args)      # byte prefix = the whole (concrete-length) slice
    return NO_MODEL


def binary_search(eng, ctx, self_ty, v, key, by):
    """core::slice::binary_search_by as implemented in the standard library this toolchain ships
    (branch-free bisection: size halves, `base` moves right unless the probe compares Greater)."""
    et = self_ty.args[0] if self_ty.args else None

    def probe(i):
        if by:
            o = eng.call_fnv(ctx, key, [Ref(v.elems, i)])
        else:
            o = eng.dispatch(ctx, _cp("<%s as Ord>::cmp" % et), [Ref(v.elems, i), key], {})
        return concretize_ordering(ctx, o)
    size = len(v.elems)
    if size == 0:
        return ERR(Sc("usize", 0))
    base = 0
    while size > 1:
        half = size // 2
        mid = base + half
        if probe(mid) != 1:
            base = mid
        size -= half
    c = probe(base)
    if c == 0:
        return OK(Sc("usize", base))
    return ERR(Sc("usize", base + (1 if c < 0 else 0)))


RANGE_TYPES = ("Range", "RangeTo", "RangeFrom", "RangeFull", "RangeInclusive", "RangeToInclusive")


class ViewList:
    """Window [a, b) onto a Python list: the element list of a sub-slice (`&mut v[a..b]`), writes go
    through to the underlying vector / array."""

    def __init__(self, base, a, b):
        self.base, self.a, self.b = base, a, b

    def __len__(self):
        return self.b - self.a

    def __iter__(self):
        return iter(self.base[self.a:self.b])

    def __getitem__(self, i):
        if isinstance(i, slice):
            return self.base[self.a:self.b][i]
        if i < 0:
            i += len(self)
        if not 0 <= i < len(self):
            raise IndexError(i)
        return self.base[self.a + i]

    def __setitem__(self, i, x):
        if isinstance(i, slice):
            new = list(self.base[self.a:self.b])
            new[i] = x
            if len(new) != len(self):
                raise ValueError("a sub-slice cannot change its length")
            self.base[self.a:self.b] = new
            return
        if i < 0:
            i += len(self)
        if not 0 <= i < len(self):
            raise IndexError(i)
        self.base[self.a + i] = x

    def __add__(self, other):
        return list(self) + list(other)

    def __radd__(self, other):
        return list(other) + list(self)

    def __eq__(self, other):
        return list(self) == list(other)

    def index(self, x):
        return list(self).index(x)

    def reverse(self):
        self[:] = list(reversed(list(self)))


def slice_range(ctx, v, rv, raw):
    """`&v[a..b]` on a vector / array / slice with concrete element list and concrete bounds."""
    base = v.fields if isinstance(v, Arr) else v.elems
    kind = "vec" if isinstance(v, Arr) else v.kind
    if base is None:
        _opaque_read("range index")
    if any(isinstance(e, Opaque) for e in base):
        return concat_range(ctx, v, rv, raw).get()
    n = len(base)
    get = lambda x: int(x.v) if not is_sym(x.v) else _unsupported("symbolic range bound in slice index")
    ty = rv.ty
    if ty == "RangeTo":
        a, b = 0, get(rv.fields[0])
    elif ty == "RangeFrom":
        a, b = get(rv.fields[0]), n
    elif ty == "Range":
        a, b = get(rv.fields[0]), get(rv.fields[1])
    elif ty == "RangeFull":
        a, b = 0, n
    elif ty == "RangeInclusive":
        a, b = get(rv.fields[0]), get(rv.fields[1]) + 1
    else:
        a, b = 0, get(rv.fields[0]) + 1
    if a > b:
        _panic("index", "slice index starts at %d but ends at %d" % (a, b), raw)
    if b > n:
        _panic("index", "range end index %d out of range for slice of length %d" % (b, n), raw)
    if kind in ("string", "str"):
        _unsupported("range index of text through the byte-slice model")
    return VecV(ViewList(base, a, b), None, kind)


def generic_cmp(eng, ctx, a, b):
    """`Ord::cmp` of std-typed values (integers, tuples, arrays, byte vectors): -1 / 0 / 1, forking
    on symbolic scalars."""
    a, b = deref(a), deref(b)
    if isinstance(a, Sc) and isinstance(b, Sc):
        if not is_sym(a.v) and not is_sym(b.v):
            return (int(a.v) > int(b.v)) - (int(a.v) < int(b.v))
        if a.ty == "bool":
            one, zero = z3.BitVecVal(1, 8), z3.BitVecVal(0, 8)
            a = Sc("u8", z3.If(zbool(a), one, zero))
            b = Sc("u8", z3.If(zbool(b), one, zero))
        x, y = bv(a), bv(b)
        if ctx.branch(x == y, "cmp-eq"):
            return 0
        return -1 if ctx.branch((x < y) if a.signed else z3.ULT(x, y), "cmp-lt") else 1
    if isinstance(a, (Tup, Arr)) and isinstance(b, (Tup, Arr)):
        for x, y in zip(a.fields, b.fields):
            c = generic_cmp(eng, ctx, x, y)
            if c:
                return c
        return (len(a.fields) > len(b.fields)) - (len(a.fields) < len(b.fields))
    if isinstance(a, VecV) and isinstance(b, VecV) and a.elems is not None and b.elems is not None:
        for x, y in zip(a.elems, b.elems):
            c = generic_cmp(eng, ctx, x, y)
            if c:
                return c
        return (len(a.elems) > len(b.elems)) - (len(a.elems) < len(b.elems))
    _unsupported("Ord::cmp of %r and %r" % (type(a).__name__, type(b).__name__))


def sort_by(eng, ctx, v, f):
    """`slice::sort_by` is a stable sort: modelled as a stable insertion sort driven by the
    caller's comparator (which is coset MIR).  For a comparator that is a total preorder the result
    of every stable sort is the same."""
    out = []
    for x in v.elems:
        pos = len(out)
        # insert after the last element that is <= x (stability)
        k = len(out)
        while k > 0:
            o = eng.call_fnv(ctx, f, [Ref(Cell(out[k - 1])), Ref(Cell(x))])
            c = concretize_ordering(ctx, o)
            if c <= 0:
                break
            k -= 1
        out.insert(k, x)
    v.elems[:] = out
    return UNIT


# ------------------------------------------------------------------------------- iterators

def range_iter(r):
    a, b = r.fields
    if is_sym(a.v) or is_sym(b.v):
        _unsupported("symbolic range")
    return IterV([Sc(a.ty, i) for i in range(int(a.v), int(b.v))])


def iter_next(eng, ctx, it):
    if it.items is not None:
        if it.pos >= len(it.items):
            return OPT_NONE()
        x = it.items[it.pos]
        it.pos += 1
        return OPT_SOME(x)
    if it.inner is not None and it.fn is not None:
        x = iter_next(eng, ctx, it.inner)
        if x.variant == "None":
            return x
        return OPT_SOME(eng.call_fnv(ctx, it.fn, [x.fields[0]]))
    _unsupported("iterator state")


def _drain(eng, ctx, it):
    out = []
    while True:
        x = iter_next(eng, ctx, it)
        if x.variant == "None":
            return out
        out.append(x.fields[0])


def _truth(ctx, b, label):
    if not is_sym(b.v):
        return bool(b.v)
    return ctx.branch(zbool(b), label)


def iter_adaptor(eng, ctx, it, m, args):
    """Iterator adaptors / consumers on concrete-length sequences (closures may be coset MIR)."""
    if isinstance(it, IterV) and it.fn == "matches":
        return NO_MODEL
    items = _drain(eng, ctx, it)
    if m == "enumerate":
        return IterV([Tup([Sc("usize", i), x]) for i, x in enumerate(items)])
    if m == "zip":
        other = args[1]
        if isinstance(other, VecV):
            other = IterV(list(other.elems))
        if isinstance(other, Ref):
            vv = deref(other)
            other = IterV([Ref(vv.elems, i) for i in range(len(vv.elems))])
        return IterV([Tup([a, b]) for a, b in zip(items, _drain(eng, ctx, other))])
    if m == "skip":
        return IterV(items[int(args[1].v):])
    if m == "take":
        return IterV(items[:int(args[1].v)])
    if m in ("cloned", "copied"):
        return IterV([deep_clone(deref(x)) for x in items])
    if m == "last":
        return OPT_SOME(items[-1]) if items else OPT_NONE()
    if m == "peekable":
        return IterV(items)
    if m == "chain":
        other = args[1]
        rest = _drain(eng, ctx, other) if isinstance(other, IterV) else list(deref(other).elems)
        return IterV(items + rest)
    f = args[1] if len(args) > 1 else None
    if m == "any":
        for x in items:
            if _truth(ctx, eng.call_fnv(ctx, f, [x]), "iter-any"):
                return mk_bool(True)
        return mk_bool(False)
    if m == "all":
        for x in items:
            if not _truth(ctx, eng.call_fnv(ctx, f, [x]), "iter-all"):
                return mk_bool(False)
        return mk_bool(True)
    if m == "position":
        for i, x in enumerate(items):
            if _truth(ctx, eng.call_fnv(ctx, f, [x]), "iter-position"):
                return OPT_SOME(Sc("usize", i))
        return OPT_NONE()
    if m == "find":
        for x in items:
            if _truth(ctx, eng.call_fnv(ctx, f, [Ref(Cell(x))]), "iter-find"):
                return OPT_SOME(x)
        return OPT_NONE()
    if m == "filter":
        return IterV([x for x in items if _truth(ctx, eng.call_fnv(ctx, f, [Ref(Cell(x))]), "iter-filter")])
    if m == "for_each":
        for x in items:
            eng.call_fnv(ctx, f, [x])
        return UNIT
    if m == "fold":
        acc = args[1]
        for x in items:
            acc = eng.call_fnv(ctx, args[2], [acc, x])
        return acc
    if m == "sum" and all(isinstance(x, Sc) for x in items):
        from interp import binop
        acc = Sc(items[0].ty if items else "usize", 0)
        for x in items:
            acc = binop("Add", acc, x)
        return acc
    return NO_MODEL


def iter_collect(eng, ctx, it, target):
    """collect::<Result<Vec<T>, E>>() stops at the first Err; collect::<Vec<T>>() takes all."""
    out = []
    as_result = target is not None and target.name == "Result"
    while True:
        x = iter_next(eng, ctx, it)
        if x.variant == "None":
            break
        y = x.fields[0]
        if as_result:
            if y.variant == "Err":
                return ERR(y.fields[0])
            y = y.fields[0]
        out.append(y)
    inner = target.args[0] if (as_result and target is not None and target.args) else target
    if inner is not None and inner.name in ("BTreeSet", "BTreeMap"):
        coll = SetV([]) if inner.name == "BTreeSet" else MapV([])
        for y in out:
            if inner.name == "BTreeSet":
                set_model(eng, ctx, inner, "insert", [Ref(Cell(coll)), y])
            else:
                map_model(eng, ctx, inner, "insert", [Ref(Cell(coll)), y.fields[0], y.fields[1]])
        return OK(coll) if as_result else coll
    res = VecV(out, None, "vec")
    return OK(res) if as_result else res


# ------------------------------------------------------------------------------- BTreeSet

def _set_search(eng, ctx, elem_ty, s, key):
    """Mirror of alloc's leaf search: scan the keys in order, comparing the searched key with
    each stored key through the element type's Ord (coset MIR where it defines one)."""
    for i, k in enumerate(s.elems):
        o = eng.dispatch(ctx, _cp("<%s as Ord>::cmp" % elem_ty), [Ref(Cell(key)), Ref(Cell(k))], {})
        c = concretize_ordering(ctx, o)
        if c == 0:
            return True, i
        if c < 0:
            return False, i
    return False, len(s.elems)


class MapV(SetV):
    """BTreeMap<K, V>: `elems` holds Tup([k, v]) in key order."""
    pass


def _map_search(eng, ctx, kt, mp, key):
    for i, kv in enumerate(mp.elems):
        o = eng.dispatch(ctx, _cp("<%s as Ord>::cmp" % kt), [Ref(Cell(key)), Ref(Cell(kv.fields[0]))], {})
        c = concretize_ordering(ctx, o)
        if c == 0:
            return True, i
        if c < 0:
            return False, i
    return False, len(mp.elems)


def map_model(eng, ctx, self_ty, m, args):
    kt = self_ty.args[0] if self_ty.args else None
    if m == "new":
        return MapV([])
    mp = deref(args[0])
    if not isinstance(mp, SetV):
        return NO_MODEL
    if m == "insert":
        found, i = _map_search(eng, ctx, kt, mp, args[1])
        if found:
            old = mp.elems[i].fields[1]
            mp.elems[i].fields[1] = args[2]
            return OPT_SOME(old)
        mp.elems.insert(i, Tup([args[1], args[2]]))
        return OPT_NONE()
    if m in ("contains_key", "get", "get_mut", "remove"):
        found, i = _map_search(eng, ctx, kt, mp, deref(args[1]))
        if m == "contains_key":
            return mk_bool(found)
        if not found:
            return OPT_NONE()
        if m == "remove":
            return OPT_SOME(mp.elems.pop(i).fields[1])
        return OPT_SOME(Ref(mp.elems[i].fields, 1))
    if m == "len":
        return Sc("usize", len(mp.elems))
    if m == "is_empty":
        return mk_bool(not mp.elems)
    if m == "keys":
        return IterV([Ref(kv.fields, 0) for kv in mp.elems])
    if m == "values":
        return IterV([Ref(kv.fields, 1) for kv in mp.elems])
    if m == "iter":
        return IterV([Tup([Ref(kv.fields, 0), Ref(kv.fields, 1)]) for kv in mp.elems])
    if m == "into_keys":
        return IterV([kv.fields[0] for kv in mp.elems])
    if m == "into_values":
        return IterV([kv.fields[1] for kv in mp.elems])
    return NO_MODEL


def set_model(eng, ctx, self_ty, m, args):
    et = self_ty.args[0] if self_ty.args else None
    if m == "new":
        return SetV([])
    s = deref(args[0])
    if m == "contains":
        found, _ = _set_search(eng, ctx, et, s, deref(args[1]))
        return mk_bool(found)
    if m == "insert":
        found, i = _set_search(eng, ctx, et, s, args[1])
        if found:
            return mk_bool(False)
        s.elems.insert(i, args[1])
        return mk_bool(True)
    if m == "is_empty":
        return mk_bool(len(s.elems) == 0)
    if m == "len":
        return Sc("usize", len(s.elems))
    if m == "clear":
        s.elems[:] = []
        return UNIT
    if m == "remove":
        found, i = _set_search(eng, ctx, et, s, deref(args[1]))
        if found:
            s.elems.pop(i)
        return mk_bool(found)
    if m == "iter":
        return IterV([Ref(s.elems, i) for i in range(len(s.elems))])
    if m in ("first", "last"):
        if not s.elems:
            return OPT_NONE()
        return OPT_SOME(Ref(s.elems, 0 if m == "first" else len(s.elems) - 1))
    return NO_MODEL


# ------------------------------------------------------------------------------- str

# Unicode White_Space code points (what char::is_whitespace / str::trim use)
WS_CODEPOINTS = [0x09, 0x0A, 0x0B, 0x0C, 0x0D, 0x20, 0x85, 0xA0, 0x1680] + list(range(0x2000, 0x200B)) + \
    [0x2028, 0x2029, 0x202F, 0x205F, 0x3000]


def char_is_ws(c):
    if not is_sym(c.v):
        return int(c.v) in WS_CODEPOINTS
    return z3.Or([c.v == z3.BitVecVal(w, 32) for w in WS_CODEPOINTS])


def decode_chars(ctx, v):
    """UTF-8 decoding of a concrete-length string with (possibly) symbolic bytes: forks on the
    lead-byte class of each character.  -> list of (char scalar, byte offset, byte length)."""
    v = deref(v)
    if v.elems is None:
        _unsupported("character access to opaque text")
    out, i, el = [], 0, v.elems
    while i < len(el):
        b = el[i]
        if not is_sym(b.v):
            x = int(b.v)
            k = 1 if x < 0x80 else (2 if x < 0xE0 else (3 if x < 0xF0 else 4))
        else:
            conds = [z3.ULT(b.v, 0x80)]
            if i + 1 < len(el):
                conds.append(z3.And(z3.UGE(b.v, 0xC0), z3.ULT(b.v, 0xE0)))
            if i + 2 < len(el):
                conds.append(z3.And(z3.UGE(b.v, 0xE0), z3.ULT(b.v, 0xF0)))
            if i + 3 < len(el):
                conds.append(z3.UGE(b.v, 0xF0))
            k = 1 + ctx.choose_cond(conds, "utf8-lead")
        bs = [z3.ZeroExt(24, bv(x)) for x in el[i:i + k]]
        if k == 1:
            c = bs[0]
        elif k == 2:
            c = ((bs[0] & 0x1F) << 6) | (bs[1] & 0x3F)
        elif k == 3:
            c = ((bs[0] & 0x0F) << 12) | ((bs[1] & 0x3F) << 6) | (bs[2] & 0x3F)
        else:
            c = ((bs[0] & 0x07) << 18) | ((bs[1] & 0x3F) << 12) | ((bs[2] & 0x3F) << 6) | (bs[3] & 0x3F)
        c = z3.simplify(c)
        out.append((Sc("char", c.as_long() if z3.is_bv_value(c) else c), i, k))
        i += k
    return out


def str_slice(v, a, b):
    v = deref(v)
    return Ref(Cell(VecV(list(v.elems[a:b]), None, "str")))


def str_trim(ctx, r, front=True, back=True):
    """`str::trim[_start|_end]`: removes Unicode White_Space characters (exact on what the text
    bound allows: all of UTF-8 for <= 5 bytes, ASCII beyond)."""
    v = deref(r)
    chars = decode_chars(ctx, v)
    i, j = 0, len(chars)
    if front:
        while i < j:
            c = char_is_ws(chars[i][0])
            if not (c if isinstance(c, bool) else ctx.branch(c, "trim-front")):
                break
            i += 1
    if back:
        while j > i:
            c = char_is_ws(chars[j - 1][0])
            if not (c if isinstance(c, bool) else ctx.branch(c, "trim-back")):
                break
            j -= 1
    a = chars[i][1] if i < len(chars) else len(v.elems)
    b = (chars[j - 1][1] + chars[j - 1][2]) if j > 0 else a
    return str_slice(v, a, max(a, b))


def str_matches_count(ctx, r, ch):
    """matches(char).count() as a term (an ASCII pattern byte cannot occur inside a multi-byte
    sequence, so counting bytes is exact)."""
    v = deref(r)
    if v.elems is None:
        _unsupported("matches on opaque text")
    if is_sym(ch.v) or int(ch.v) >= 0x80:
        _unsupported("matches with a non-ASCII / symbolic pattern")
    c = int(ch.v)
    total, n = None, 0
    for b in v.elems:
        if not is_sym(b.v):
            n += 1 if b.v == c else 0
        else:
            t = z3.If(b.v == z3.BitVecVal(c, 8), z3.BitVecVal(1, 64), z3.BitVecVal(0, 64))
            total = t if total is None else total + t
    cnt = Sc("usize", n if total is None else total + z3.BitVecVal(n, 64))
    return IterV(inner=cnt, fn="matches")


def str_split(ctx, r, ch, limit=None):
    """split / splitn on an ASCII char: forks on each byte being the separator."""
    v = deref(r)
    if v.elems is None or is_sym(ch.v) or int(ch.v) >= 0x80:
        _unsupported("split on opaque text / non-ASCII pattern")
    c = int(ch.v)
    pieces, start = [], 0
    for i, b in enumerate(v.elems):
        if limit is not None and len(pieces) + 1 >= limit:
            break
        hit = (int(b.v) == c) if not is_sym(b.v) else ctx.branch(b.v == z3.BitVecVal(c, 8), "split-sep")
        if hit:
            pieces.append(str_slice(v, start, i))
            start = i + 1
    pieces.append(str_slice(v, start, len(v.elems)))
    return IterV(pieces)


def str_find_char(ctx, r, ch):
    v = deref(r)
    c = int(ch.v)
    for i, b in enumerate(v.elems):
        hit = (int(b.v) == c) if not is_sym(b.v) else ctx.branch(b.v == z3.BitVecVal(c, 8), "find-char")
        if hit:
            return OPT_SOME(Sc("usize", i))
    return OPT_NONE()


def is_char_boundary(ctx, v, i):
    v = deref(v)
    if i == 0 or i == len(v.elems):
        return True
    if i > len(v.elems):
        return False
    b = v.elems[i]
    if not is_sym(b.v):
        return not (0x80 <= int(b.v) < 0xC0)
    return ctx.branch(z3.Not(z3.And(z3.UGE(b.v, 0x80), z3.ULT(b.v, 0xC0))), "char-boundary")


def str_index_range(ctx, r, rng_, raw):
    """`&s[a..b]` and friends: panics unless both ends are char boundaries within the string."""
    v = deref(r)
    n = len(v.elems)
    rv = deref(rng_)
    ty = rv.ty if isinstance(rv, Adt) else ""
    get = lambda x: int(x.v) if not is_sym(x.v) else _unsupported("symbolic string index")
    if ty == "RangeTo":
        a, b = 0, get(rv.fields[0])
    elif ty == "RangeFrom":
        a, b = get(rv.fields[0]), n
    elif ty == "Range":
        a, b = get(rv.fields[0]), get(rv.fields[1])
    elif ty == "RangeFull":
        a, b = 0, n
    elif ty == "RangeInclusive":
        a, b = get(rv.fields[0]), get(rv.fields[1]) + 1
    elif ty == "RangeToInclusive":
        a, b = 0, get(rv.fields[0]) + 1
    else:
        _unsupported("string index with %r" % (rv,))
    if a > b or b > n or not is_char_boundary(ctx, v, a) or not is_char_boundary(ctx, v, b):
        _panic("index", "byte index is out of bounds or not a char boundary", raw)
    return str_slice(v, a, b)


def str_model(eng, ctx, cp, m, args):
    r = args[0]
    v = deref(r)
    if not isinstance(v, VecV):
        return NO_MODEL
    if m == "trim":
        return str_trim(ctx, r)
    if m == "trim_start":
        return str_trim(ctx, r, back=False)
    if m == "trim_end":
        return str_trim(ctx, r, front=False)
    if m in ("trim_matches", "trim_start_matches", "trim_end_matches"):
        pat = args[1]
        chars = decode_chars(ctx, v)

        def hit(c):
            if isinstance(pat, Sc):
                return (int(c.v) == int(pat.v)) if not is_sym(c.v) and not is_sym(pat.v) else \
                    ctx.branch(bv(c) == bv(pat), "trim-pat")
            return _truth(ctx, eng.call_fnv(ctx, pat, [c]), "trim-pat")
        i, j = 0, len(chars)
        if m != "trim_end_matches":
            while i < j and hit(chars[i][0]):
                i += 1
        if m != "trim_start_matches":
            while j > i and hit(chars[j - 1][0]):
                j -= 1
        a = chars[i][1] if i < len(chars) else len(v.elems)
        b = (chars[j - 1][1] + chars[j - 1][2]) if j > i else a
        return str_slice(v, a, max(a, b))
    if m == "matches":
        return str_matches_count(ctx, r, args[1])
    if m == "split" and isinstance(args[1], Sc):
        return str_split(ctx, r, args[1])
    if m == "splitn" and isinstance(args[2], Sc):
        return str_split(ctx, r, args[2], limit=int(args[1].v))
    if m == "split_once" and isinstance(args[1], Sc):
        pos = str_find_char(ctx, r, args[1])
        if pos.variant == "None":
            return pos
        i = int(pos.fields[0].v)
        return OPT_SOME(Tup([str_slice(v, 0, i), str_slice(v, i + 1, len(v.elems))]))
    if m == "find" and isinstance(args[1], Sc):
        return str_find_char(ctx, r, args[1])
    if m == "contains" and isinstance(args[1], Sc):
        return mk_bool(str_find_char(ctx, r, args[1]).variant == "Some")
    if m in ("starts_with", "ends_with") and isinstance(args[1], Sc):
        if not v.elems:
            return mk_bool(False)
        if is_sym(args[1].v) or int(args[1].v) >= 0x80:
            _unsupported("starts_with with non-ASCII pattern")
        b = v.elems[0 if m == "starts_with" else -1]
        return mk_bool((int(b.v) == int(args[1].v)) if not is_sym(b.v) else (b.v == z3.BitVecVal(int(args[1].v), 8)))
    if m == "chars":
        return IterV([c for c, _, _ in decode_chars(ctx, v)])
    if m == "char_indices":
        return IterV([Tup([Sc("usize", o), c]) for c, o, _ in decode_chars(ctx, v)])
    if m == "bytes":
        return IterV(list(v.elems))
    if m == "is_char_boundary" and not is_sym(args[1].v):
        return mk_bool(is_char_boundary(ctx, v, int(args[1].v)))
    if m == "is_ascii":
        conds = [z3.ULT(bv(b), 0x80) for b in v.elems if is_sym(b.v)]
        if any(not is_sym(b.v) and int(b.v) >= 0x80 for b in v.elems):
            return mk_bool(False)
        return mk_bool(z3.And(conds) if conds else True)
    if m in ("len", "is_empty", "as_bytes", "as_str", "to_vec"):
        return NO_MODEL            # handled by vec_model
    return NO_MODEL


def char_model(ctx, m, args):
    c = args[0]
    c = deref(c)
    if m == "is_whitespace":
        return mk_bool(char_is_ws(c))
    if m == "is_ascii":
        return mk_bool((int(c.v) < 0x80) if not is_sym(c.v) else z3.ULT(c.v, 0x80))
    if m == "len_utf8":
        if not is_sym(c.v):
            x = int(c.v)
            return Sc("usize", 1 if x < 0x80 else (2 if x < 0x800 else (3 if x < 0x10000 else 4)))
        return Sc("usize", z3.If(z3.ULT(c.v, 0x80), z3.BitVecVal(1, 64), z3.If(z3.ULT(c.v, 0x800), z3.BitVecVal(2, 64),
                                 z3.If(z3.ULT(c.v, 0x10000), z3.BitVecVal(3, 64), z3.BitVecVal(4, 64)))))
    if m == "is_ascii_whitespace":
        ws = [0x09, 0x0A, 0x0C, 0x0D, 0x20]
        return mk_bool((int(c.v) in ws) if not is_sym(c.v) else z3.Or([c.v == w for w in ws]))
    return NO_MODEL


# ------------------------------------------------------------------------------- byte-layer stubs

def stub_from_reader(eng, ctx, args):
    """ciborium::de::from_reader(&mut &[u8]) as a nondeterministic, *functional* parser:
       either Err(arbitrary de::Error) or Ok(arbitrary Value) consuming k <= len bytes.
       The same byte string (identity) gives the same outcome on a path.  Bytes produced by the
       writer stub on this path parse back to the tree that was written (parse(enc(v)) = v)."""
    rd = args[0]                      # the reader: `&mut &[u8]` (advanced in place) or `&[u8]` by value
    inner = rd.get()
    if not isinstance(inner, Ref):
        # reader passed by value: the caller's slice is not advanced
        rd = Ref(Cell(rd))
        inner = rd.get()
    seq = deref(inner)
    side = ctx.side
    if seq.elems is not None and all(isinstance(x, Sc) and not is_sym(x.v) for x in seq.elems):
        # concrete bytes (translator validation / replay of concrete inputs): real parse
        import concrete
        data = bytes(int(x.v) for x in seq.elems)
        try:
            tree, pos = concrete.decode(data, 0)
        except concrete.DecodeError as e:
            if str(e) == "eof":      # input ended inside (or before) an item: ciborium reports Io(EndOfFile)
                return ERR(Adt("de::Error", "Io", [Adt("EndOfFile", None, [])]))
            return ERR(Adt("de::Error", "Syntax", [Sc("usize", 0)]))
        except (UnicodeDecodeError, ValueError):
            return ERR(Adt("de::Error", "Syntax", [Sc("usize", 0)]))
        rd.set(Ref(Cell(VecV([Sc("u8", b) for b in data[pos:]], None, "vec"))))
        return OK(concrete.tree_to_value(tree))
    if seq.elems is not None and any(isinstance(e, Opaque) for e in seq.elems) and "head_parse" in side:
        # raw input with modelled head bytes (head job): the reference reading of `tag head ++ body`
        return side["head_parse"](eng, ctx, seq, rd)
    ident = seq.opaque.ident if seq.elems is None else ("conc", id(seq))
    ctx.side.setdefault("parse_calls", []).append(ident)
    # written on this path?
    written = side.get("written", {})
    if seq.elems is None and ident in written:
        tree = deep_clone(written[ident])
        rd.set(Ref(Cell(VecV([], None, "vec"))))
        return OK(tree)
    outcome = decide_parse(ctx, seq)
    if outcome[0] == "err":
        k = ["Io", "Syntax", "Semantic", "RecursionLimitExceeded"][outcome[1]]
        if k == "Io":
            e = Adt("de::Error", "Io", [Adt("EndOfFile", None, [])])
        elif k == "Syntax":
            e = Adt("de::Error", "Syntax", [Sc("usize", ctx.fresh_bv("syntax.offset", 64))])
        elif k == "Semantic":
            e = Adt("de::Error", "Semantic", [OPT_NONE(), VecV([], None, "string")])
        else:
            e = Adt("de::Error", "RecursionLimitExceeded", [])
        return ERR(e)
    _, node, exact = outcome
    if exact:
        rd.set(Ref(Cell(VecV([], None, "vec"))))
    else:
        rest = ctx.fresh_opaque("rest-of-" + str(ident), "vec", nonempty=True)
        rd.set(Ref(Cell(rest)))
    from values import Lazy as _L
    return OK(_L(node))


def decide_parse(ctx, seq):
    """Outcome of parsing a byte string, decided once per identity and path:
       ('ok', node, consumed_everything) | ('err', kind, None)."""
    ident = seq.opaque.ident if seq.elems is None else ("conc", id(seq))
    cache = ctx.side.setdefault("parsed", {})
    if ident in cache:
        return cache[ident]
    node = ctx.input_node_for_bytes(seq, ident)
    owner = ctx.side.get("bytes_nodes", {}).get(ident)
    ok = ctx.choose(2, "parse-ok@" + str(ident)) == 0
    if ok:
        # a CBOR item occupies at least one byte: an empty input never parses
        n = seq_len(ctx, seq)
        if is_sym(n.v):
            ctx.assume(n.v != 0)
        elif n.v == 0:
            from interp import Infeasible
            raise Infeasible("empty input parses")
        exact = ctx.choose(2, "parse-consumes-all@" + str(ident)) == 0
        outcome = ("ok", node, exact)
    else:
        kind = ctx.choose(4, "parse-err-kind")
        outcome = ("err", kind, None)
    cache[ident] = outcome
    if owner is not None:
        owner.parse_outcome = outcome
    elif node is not None:
        node.parse_outcome = outcome
    return outcome


def stub_into_writer(eng, ctx, args):
    """ciborium::ser::into_writer(&Value, &mut Vec<u8>): records the tree it was handed and appends
    an opaque, non-empty byte string standing for its canonical encoding."""
    v = deref(args[0])
    w = deref(args[1])
    if isinstance(v, Adt) and v.ty == "Value" and ctx.side.get("label_bytes") and \
            (v.variant == "Integer" or (v.variant == "Text" and v.fields[0].elems is not None
                                        and len(v.fields[0].elems) < 0x10000)):
        # a single integer / short text (what Label::cmp_canonical serialises): the reference
        # deterministic encoding as concrete-length bytes with symbolic content
        if not isinstance(w, VecV) or w.elems:
            _unsupported("into_writer into a non-empty buffer")
        w.elems, w.opaque = leaf_encoding(ctx, v), None
        return OK(UNIT)
    if ctx.side.get("concrete_writes") and isinstance(w, VecV) and w.elems is not None:
        # head job: a fully concrete tree (e.g. Tag(18, Null) written to learn the tag head) is
        # serialised to its deterministic bytes
        import concrete
        try:
            data = concrete.encode(concrete.value_to_tree(None, v, {}))
        except Exception:
            data = None
        if data is not None and not _has_symbols(v):
            w.elems.extend(Sc("u8", b) for b in data)
            return OK(UNIT)
    snap = deep_clone(v)
    out = ctx.fresh_opaque("enc", "vec", nonempty=True)
    ctx.side.setdefault("written", {})[out.opaque.ident] = snap
    ctx.side.setdefault("writer_calls", []).append((out.opaque.ident, snap))
    if isinstance(w, VecV):
        if w.elems is None and w.opaque is not None:
            w.elems, w.opaque = [w.opaque], None
        if w.elems:
            w.elems.append(out.opaque)          # appended to hand-assembled output
        else:
            w.elems, w.opaque = None, out.opaque
    else:
        _unsupported("writer %r" % (w,))
    return OK(UNIT)


def _has_symbols(v):
    """does an interpreter value contain symbolic scalars, opaque strings or lazy parts?"""
    v = deref(v)
    if isinstance(v, Sc):
        return is_sym(v.v)
    if isinstance(v, (Lazy, Opaque)):
        return True
    if isinstance(v, VecV):
        return v.elems is None or any(_has_symbols(e) for e in v.elems)
    if isinstance(v, (Adt, Tup, Arr)):
        return any(_has_symbols(x) for x in v.fields)
    if isinstance(v, BoxV):
        return _has_symbols(v.cell.v)
    if isinstance(v, SetV):
        return any(_has_symbols(e) for e in v.elems)
    return False


def leaf_encoding(ctx, v):
    """RFC 8949 shortest-form encoding of an integer / short text Value as a list of byte scalars."""
    if v.variant == "Text":
        el = v.fields[0].elems
        n = len(el)
        if n < 24:
            head = [0x60 + n]
        elif n < 0x100:
            head = [0x78, n]
        elif n < 0x10000:
            head = [0x79, n >> 8, n & 0xff]
        else:
            _unsupported("leaf encoding of a text longer than 65535 bytes")
        return [Sc("u8", b) for b in head] + list(el)
    x = v.fields[0].fields[0]           # i128
    if not is_sym(x.v):
        import concrete
        return [Sc("u8", b) for b in concrete.encode(("int", int(x.v)))]
    t = x.v
    neg = ctx.branch(t < 0, "enc:negative")
    n = z3.simplify(z3.Extract(63, 0, (-1 - t) if neg else t))
    mt = 0x20 if neg else 0x00
    bounds = [(24, 0), (0x100, 1), (0x10000, 2), (0x100000000, 4)]
    conds = [z3.ULT(n, z3.BitVecVal(b, 64)) for b, _ in bounds]
    classes = [conds[0]] + [z3.And(z3.Not(conds[i - 1]), conds[i]) for i in range(1, 4)] + [z3.Not(conds[3])]
    k = ctx.choose_cond(classes, "enc:int-width")
    if k == 0:
        return [Sc("u8", z3.simplify(z3.BitVecVal(mt, 8) | z3.Extract(7, 0, n)))]
    width = [1, 2, 4, 8][k - 1]
    out = [Sc("u8", mt | (23 + k))]
    for i in reversed(range(width)):
        out.append(Sc("u8", z3.simplify(z3.Extract(8 * i + 7, 8 * i, n))))
    return out
