"""Models of the external callees of coset's MIR (core/alloc/ciborium), written against their
documentation, never against coset.  Anything not modelled raises Unsupported (hard error)."""
import z3

from lazy import clone_seq, force
from rtypes import INT_BITS, Ty, parse_callpath, subst
from values import (MOVED, UNINIT, UNIT, Adt, Arr, BoxV, Cell, FnV, IterV, Lazy, Opaque, Ref, Sc,
                    SetV, Tup, VecV, bv, copy_val, deep_clone, is_sym, wrap, zbool)

NO_MODEL = object()


def _unsupported(msg):
    from interp import Unsupported
    raise Unsupported(msg)


def _panic(kind, msg, where=""):
    from interp import Panic
    raise Panic(kind, msg, where)


def deref(v):
    while isinstance(v, Ref):
        v = v.get()
    return v


def mk_bool(b):
    return Sc("bool", b)


def OPT_NONE():
    return Adt("Option", "None", [])


def OPT_SOME(v):
    return Adt("Option", "Some", [v])


def OK(v):
    return Adt("Result", "Ok", [v])


def ERR(e):
    return Adt("Result", "Err", [e])


def ordering(n):
    return Sc("i8", n, enum="Ordering")


# ------------------------------------------------------------------------------- sequences

def seq_len(ctx, v):
    v = deref(v)
    if isinstance(v, VecV):
        if v.elems is None:
            return Sc("usize", v.opaque.len)
        return Sc("usize", len(v.elems))
    if isinstance(v, Arr):
        return Sc("usize", len(v.fields))
    if isinstance(v, SetV):
        return Sc("usize", len(v.elems))
    _unsupported("len of %r" % (v,))


def seq_is_empty(ctx, v):
    n = seq_len(ctx, v)
    if is_sym(n.v):
        return Sc("bool", n.v == 0)
    return Sc("bool", n.v == 0)


def bytes_eq(ctx, a, b):
    """Equality of two byte/char sequences as a z3 Bool / Python bool (no forking)."""
    a, b = deref(a), deref(b)
    if a.elems is not None and b.elems is not None:
        if len(a.elems) != len(b.elems):
            return False
        conds = []
        for x, y in zip(a.elems, b.elems):
            if not is_sym(x.v) and not is_sym(y.v):
                if x.v != y.v:
                    return False
            else:
                conds.append(bv(x) == bv(y))
        return z3.And(conds) if conds else True
    if a.elems is None and b.elems is None:
        if a.opaque.ident == b.opaque.ident:
            return True
        return ctx.opaque_eq(a.opaque, b.opaque)
    op, cl = (a, b) if a.elems is None else (b, a)
    # opaque vs concrete: equal only if lengths agree and an (uninterpreted) content match holds
    return ctx.opaque_eq_concrete(op.opaque, cl)


def bytes_cmp(ctx, a, b):
    """Lexicographic Ordering (as an i8 term) of two concrete-length byte sequences."""
    a, b = deref(a), deref(b)
    if a.elems is None or b.elems is None:
        _unsupported("ordering comparison of opaque byte strings")
    la, lb = len(a.elems), len(b.elems)
    res = z3.BitVecVal(-1 if la < lb else (1 if la > lb else 0), 8)
    for i in reversed(range(min(la, lb))):
        x, y = bv(a.elems[i]), bv(b.elems[i])
        res = z3.If(z3.ULT(x, y), z3.BitVecVal(-1, 8), z3.If(z3.UGT(x, y), z3.BitVecVal(1, 8), res))
    res = z3.simplify(res)
    if z3.is_bv_value(res):
        return ordering(wrap("i8", res.as_long()))
    return ordering(res)


def int_cmp(a, b):
    if not is_sym(a.v) and not is_sym(b.v):
        return ordering(-1 if a.v < b.v else (1 if a.v > b.v else 0))
    x, y = bv(a), bv(b)
    lt = (x < y) if a.signed else z3.ULT(x, y)
    return ordering(z3.If(lt, z3.BitVecVal(-1, 8), z3.If(x == y, z3.BitVecVal(0, 8), z3.BitVecVal(1, 8))))


def concretize_ordering(ctx, o):
    """Fork a symbolic Ordering into its three values."""
    if not is_sym(o.v):
        return int(o.v)
    vals = [-1, 0, 1]
    i = ctx.choose_cond([o.v == z3.BitVecVal(v, 8) for v in vals], "ordering")
    return vals[i]


# ------------------------------------------------------------------------------- structural eq

def struct_eq(ctx, a, b):
    """Structural equality as z3 Bool / Python bool (used for std containers and by harnesses).
    Floats compare with IEEE semantics (as derived PartialEq does)."""
    a, b = deref(a), deref(b)
    if isinstance(a, Lazy) or isinstance(b, Lazy):
        if isinstance(a, Lazy) and isinstance(b, Lazy) and a.node is b.node and a.node.kind != "Float":
            return _lazy_self_eq(ctx, a.node)
        a, b = force(ctx, a), force(ctx, b)
    if isinstance(a, Sc) and isinstance(b, Sc):
        if a.ty == "f64":
            return z3.fpEQ(z3.fpBVToFP(_bv64(a), z3.Float64()), z3.fpBVToFP(_bv64(b), z3.Float64()))
        if a.ty == "bool":
            if not is_sym(a.v) and not is_sym(b.v):
                return bool(a.v) == bool(b.v)
            return zbool(a) == zbool(b)
        if not is_sym(a.v) and not is_sym(b.v):
            return int(a.v) == int(b.v)
        return bv(a) == bv(b)
    if isinstance(a, Adt) and isinstance(b, Adt):
        if a.variant != b.variant or len(a.fields) != len(b.fields):
            return False
        return _all(ctx, a.fields, b.fields)
    if isinstance(a, (Tup, Arr)) and type(a) is type(b):
        if len(a.fields) != len(b.fields):
            return False
        return _all(ctx, a.fields, b.fields)
    if isinstance(a, VecV) and isinstance(b, VecV):
        if a.kind in ("vec", "string", "str") and (a.elems is None or b.elems is None or
                                                   all(isinstance(x, Sc) for x in (a.elems + b.elems))):
            return bytes_eq(ctx, a, b)
        if len(a.elems) != len(b.elems):
            return False
        return _all(ctx, a.elems, b.elems)
    if isinstance(a, SetV) and isinstance(b, SetV):
        if len(a.elems) != len(b.elems):
            return False
        return _all(ctx, a.elems, b.elems)
    if isinstance(a, BoxV) and isinstance(b, BoxV):
        return struct_eq(ctx, a.cell.v, b.cell.v)
    if a is UNIT and b is UNIT:
        return True
    _unsupported("struct_eq of %r and %r" % (a, b))


def _lazy_self_eq(ctx, node):
    # an unexplored input compared with itself: equal unless it contains a NaN float somewhere;
    # deciding that needs the shape, so materialise
    return struct_eq(ctx, node.materialize(ctx), node.materialize(ctx))


def _all(ctx, xs, ys):
    conds = []
    for x, y in zip(xs, ys):
        c = struct_eq(ctx, x, y)
        if c is False:
            return False
        if c is not True:
            conds.append(c)
    if not conds:
        return True
    return z3.And(conds) if len(conds) > 1 else conds[0]


def _bv64(sc):
    return sc.v if is_sym(sc.v) else z3.BitVecVal(sc.v, 64)


def to_sc_bool(c):
    return Sc("bool", c)


# ------------------------------------------------------------------------------- dispatcher

def call(eng, ctx, cp, self_ty, trait, generics, args, env):
    m = cp.method
    tn = trait.name if trait is not None else None
    sn = self_ty.name if self_ty is not None else None
    raw = cp.raw

    # ---- environment stubs (the byte layer) -------------------------------------------
    if cp.kind == "free" and m == "from_reader":
        return stub_from_reader(eng, ctx, args)
    if cp.kind == "free" and m == "into_writer":
        return stub_into_writer(eng, ctx, args)

    # ---- panics ------------------------------------------------------------------------
    if cp.kind == "free" and m in ("panic", "panic_fmt", "panic_explicit", "unwrap_failed",
                                   "expect_failed", "panic_bounds_check", "unreachable_display"):
        msg = ""
        if args and isinstance(args[0], Ref) and isinstance(deref(args[0]), VecV):
            msg = seq_to_str(deref(args[0]))
        _panic("panic", msg, raw)
    if sn == "Arguments" or sn == "Argument":
        return Adt("FmtArgs", None, [])

    # ---- Try / FromResidual --------------------------------------------------------------
    if tn == "Try" and m == "branch":
        r = args[0]
        if r.ty == "Result":
            if r.variant == "Ok":
                return Adt("ControlFlow", "Continue", [r.fields[0]])
            return Adt("ControlFlow", "Break", [Adt("Result", "Err", [r.fields[0]])])
        if r.ty == "Option":
            if r.variant == "Some":
                return Adt("ControlFlow", "Continue", [r.fields[0]])
            return Adt("ControlFlow", "Break", [OPT_NONE()])
    if tn == "FromResidual" and m == "from_residual":
        r = args[0]
        if r.ty == "Option":
            return OPT_NONE()
        e = r.fields[0]
        target_err = self_ty.args[1] if len(self_ty.args) > 1 else None
        src_err = trait.args[0].args[1] if trait.args and len(trait.args[0].args) > 1 else None
        if target_err is not None and src_err is not None and str(target_err) != str(src_err):
            e = eng.dispatch(ctx, _cp("<%s as From<%s>>::from" % (target_err, src_err)), [e], {})
        return ERR(e)

    # ---- closures are handled in Engine.dispatch; fn pointers: --------------------------
    # ---- From / Into for ciborium types -------------------------------------------------
    if tn in ("From",) and sn == "Value" and m == "from":
        x = args[0]
        if isinstance(x, Sc):
            return Adt("Value", "Integer", [Adt("Integer", None, [widen_i128(x)])])
    if tn == "Into" and m == "into" and isinstance(args[0], Sc) and trait.args and trait.args[0].name == "Integer":
        return Adt("Integer", None, [widen_i128(args[0])])
    if tn in ("TryInto", "TryFrom") and m in ("try_into", "try_from"):
        x = args[0]
        tgt = trait.args[0].name if tn == "TryInto" else sn
        if isinstance(x, Adt) and x.ty == "Integer":
            x = x.fields[0]
        if isinstance(x, Sc) and tgt in INT_BITS:
            return checked_narrow(ctx, x, tgt)

    # ---- integers -----------------------------------------------------------------------
    if m == "signum" and isinstance(args[0], Sc):
        x = args[0]
        if not is_sym(x.v):
            return Sc(x.ty, (x.v > 0) - (x.v < 0))
        t = bv(x)
        z = z3.BitVecVal(0, x.bits)
        return Sc(x.ty, z3.If(t > z, z3.BitVecVal(1, x.bits), z3.If(t == z, z, z3.BitVecVal(-1, x.bits))))
    if tn == "Ord" and m == "cmp":
        a, b = deref(args[0]), deref(args[1])
        if isinstance(a, Sc) and isinstance(b, Sc):
            return int_cmp(a, b)
        if isinstance(a, VecV) and isinstance(b, VecV):
            return bytes_cmp(ctx, a, b)
    if tn == "PartialOrd" and m == "partial_cmp":
        a, b = deref(args[0]), deref(args[1])
        if isinstance(a, Sc) and isinstance(b, Sc):
            return OPT_SOME(int_cmp(a, b))
    if sn == "Ordering" and m == "then":
        a, b = args
        if not is_sym(a.v):
            return a if a.v != 0 else b
        return ordering(z3.If(a.v != 0, a.v, bv(b)))
    if sn == "Ordering" and m == "reverse":
        a = args[0]
        return ordering(-a.v)
    if tn == "Default" and m == "default":
        return default_of(eng, ctx, self_ty)

    # ---- PartialEq -------------------------------------------------------------------------
    if tn == "PartialEq" and m in ("eq", "ne"):
        a, b = args
        # `<&T as PartialEq>::eq(&&a, &&b)`: compare the referents with T's own PartialEq
        inner = self_ty
        while inner is not None and inner.name in ("&", "&mut"):
            inner = inner.args[0]
        a, b = deref(a), deref(b)
        r = None
        if inner is not None and inner is not self_ty and not isinstance(a, (Sc, VecV)):
            tgt = eng.impls.resolve(_cp("<%s as PartialEq>::eq" % inner), inner, Ty("PartialEq"), ())
            if tgt is not None:
                res = eng.run(ctx, tgt[0], [Ref(Cell(a)), Ref(Cell(b))], tgt[1])
                r = res.v
        if r is None:
            r = elementwise_eq(eng, ctx, inner if inner is not None else self_ty, a, b)
        if m == "ne":
            r = (not r) if isinstance(r, bool) else z3.Not(r)
        return Sc("bool", r)

    # ---- Clone ---------------------------------------------------------------------------
    if tn == "Clone" and m == "clone":
        return deep_clone(deref(args[0]))
    if tn == "ToOwned" and m == "to_owned":
        v = deref(args[0])
        return VecV(list(v.elems) if v.elems is not None else None, v.opaque,
                    "string" if v.kind in ("str", "string") else "vec")
    if tn in ("Deref", "DerefMut") and m in ("deref", "deref_mut"):
        v = args[0]
        inner = v.get()
        if isinstance(inner, BoxV):
            return Ref(inner.cell)
        return v          # Vec<T> -> [T], String -> str: same representation
    if tn == "AsRef" and m == "as_ref":
        return args[0]
    if tn == "Drop" and m == "drop":
        return UNIT
    if cp.kind == "free" and m in ("drop", "forget"):
        return UNIT

    # ---- Box / vec! lowering -----------------------------------------------------------------
    if sn == "Box" and m == "new":
        return BoxV(Cell(args[0]))
    if sn == "Box" and m == "new_uninit":
        return BoxV(Cell(UNINIT))
    if m == "box_assume_init_into_vec_unsafe":
        arr = args[0].cell.v
        kind = "vec"
        return VecV(list(arr.fields), None, kind)
    if m == "into_vec" and isinstance(args[0], BoxV):
        return VecV(list(args[0].cell.v.fields), None, "vec")

    # ---- Vec / slice / String ------------------------------------------------------------------
    if sn in ("Vec", "slice", "String", "str", "array"):
        r = vec_model(eng, ctx, cp, self_ty, trait, m, args)
        if r is not NO_MODEL:
            return r
    if tn == "Index" and m == "index":
        v, i = deref(args[0]), args[1]
        if isinstance(i, Sc) and not is_sym(i.v):
            if v.elems is None:
                _unsupported("index into opaque sequence")
            if not (0 <= i.v < len(v.elems)):
                _panic("index", "index out of bounds: the len is %d but the index is %d" % (len(v.elems), i.v), raw)
            return Ref(v.elems, int(i.v))
        if isinstance(i, Sc):
            # symbolic index into a concrete-length vector: fork over in-range values / out of range
            n = len(v.elems)
            conds = [i.v == z3.BitVecVal(k, i.bits) for k in range(n)] + [z3.UGE(i.v, z3.BitVecVal(n, i.bits))]
            k = ctx.choose_cond(conds, "index")
            if k == n:
                _panic("index", "index out of bounds", raw)
            return Ref(v.elems, k)

    # ---- iterators -------------------------------------------------------------------------------
    if tn == "IntoIterator" and m == "into_iter":
        v = args[0]
        if isinstance(v, IterV):
            return v
        if isinstance(v, Ref) and isinstance(deref(v), VecV):
            vv = deref(v)
            if vv.elems is None:
                _unsupported("iteration over opaque byte string")
            return IterV([Ref(vv.elems, i) for i in range(len(vv.elems))])
        if isinstance(v, VecV):
            if v.elems is None:
                _unsupported("iteration over opaque byte string")
            return IterV(list(v.elems))
        if isinstance(v, SetV):
            return IterV(list(v.elems))
        if isinstance(v, Adt) and v.ty == "Range":
            return range_iter(v)
    if tn == "Iterator":
        it = deref(args[0])
        if isinstance(it, Adt) and it.ty == "Range":
            it = range_iter(it)
        if m == "next":
            return iter_next(eng, ctx, it)
        if m == "map":
            return IterV(inner=it, fn=args[1])
        if m == "rev":
            if it.items is None:
                _unsupported("rev of adaptor")
            r = IterV(list(reversed(it.items[it.pos:])))
            return r
        if m == "collect":
            return iter_collect(eng, ctx, it, generics[0] if generics else None)
        if m == "count":
            if it.items is None and it.fn == "matches":
                return it.inner
            n = 0
            while True:
                x = iter_next(eng, ctx, it)
                if x.variant == "None":
                    return Sc("usize", n)
                n += 1

    # ---- BTreeSet ------------------------------------------------------------------------------
    if sn == "BTreeSet":
        r = set_model(eng, ctx, self_ty, m, args)
        if r is not NO_MODEL:
            return r

    # ---- Option / Result -------------------------------------------------------------------------
    if sn == "Option":
        o = deref(args[0]) if args else None
        if m == "is_none":
            return mk_bool(o.variant == "None")
        if m == "is_some":
            return mk_bool(o.variant == "Some")
        if m == "as_ref":
            if o.variant == "None":
                return OPT_NONE()
            return OPT_SOME(Ref(o.fields, 0))
        if m in ("unwrap", "expect"):
            o = args[0]
            if o.variant == "None":
                _panic("unwrap", "called Option::%s on a None value" % m, raw)
            return o.fields[0]
        if m == "unwrap_or":
            o = args[0]
            return o.fields[0] if o.variant == "Some" else args[1]
    if sn == "Result":
        r = args[0]
        if m in ("unwrap", "expect"):
            if r.variant == "Err":
                _panic("unwrap", "called Result::%s on an Err value" % m, raw)
            return r.fields[0]
        if m == "map_err":
            if r.variant == "Ok":
                return r
            return ERR(eng.call_fnv(ctx, args[1], [r.fields[0]]))
        if m == "is_ok":
            return mk_bool(r.variant == "Ok")
        if m == "is_err":
            return mk_bool(r.variant == "Err")

    # ---- str helpers used by the content-type rule --------------------------------------------------
    if sn == "str" and m == "trim":
        return str_trim(ctx, args[0])
    if sn == "str" and m == "matches":
        return str_matches_count(ctx, args[0], args[1])
    if sn == "str" and m == "is_empty":
        return seq_is_empty(ctx, args[0])
    return NO_MODEL


_CP_CACHE = {}


def _cp(s):
    return parse_callpath(s)


def widen_i128(x):
    if not is_sym(x.v):
        return Sc("i128", int(x.v))
    t = x.v
    return Sc("i128", z3.SignExt(128 - x.bits, t) if x.signed else z3.ZeroExt(128 - x.bits, t))


def checked_narrow(ctx, x, tgt):
    """`T::try_from(x)`: Ok(exact value) iff representable, else Err(TryFromIntError)."""
    tb = INT_BITS[tgt]
    signed_t = tgt[0] == "i"
    lo = -(1 << (tb - 1)) if signed_t else 0
    hi = (1 << (tb - 1)) - 1 if signed_t else (1 << tb) - 1
    if not is_sym(x.v):
        if lo <= x.v <= hi:
            return OK(Sc(tgt, int(x.v)))
        return ERR(Adt("TryFromIntError", None, [UNIT]))
    t = x.v
    fb = x.bits
    if x.signed:
        inr = z3.And(t >= z3.BitVecVal(lo, fb), t <= z3.BitVecVal(hi, fb)) if fb > tb or not signed_t else True
        if fb <= tb and not signed_t:
            inr = t >= z3.BitVecVal(0, fb)
    else:
        inr = z3.ULE(t, z3.BitVecVal(hi, fb)) if hi < (1 << fb) - 1 else True
    if ctx.branch(inr, "narrow-%s" % tgt):
        if tb <= fb:
            return OK(Sc(tgt, z3.Extract(tb - 1, 0, t)))
        return OK(Sc(tgt, z3.SignExt(tb - fb, t) if x.signed else z3.ZeroExt(tb - fb, t)))
    return ERR(Adt("TryFromIntError", None, [UNIT]))


def default_of(eng, ctx, ty):
    n = ty.name
    if n == "Vec":
        return VecV([], None, "vec")
    if n == "String":
        return VecV([], None, "string")
    if n == "Option":
        return OPT_NONE()
    if n == "BTreeSet":
        return SetV([])
    if n in INT_BITS:
        return Sc(n, 0)
    if n == "bool":
        return Sc("bool", False)
    _unsupported("Default for %s" % ty)


def elementwise_eq(eng, ctx, ty, a, b):
    """PartialEq of std containers: delegates to the element type's own PartialEq when coset
    defines one (so a hand-written impl is executed), structural otherwise."""
    a, b = deref(a), deref(b)
    if ty is not None and ty.name in ("Vec", "Option", "BTreeSet", "slice") and ty.args:
        et = ty.args[0]
        tgt = eng.impls.resolve(_cp("<%s as PartialEq>::eq" % et), et, Ty("PartialEq"), ())
        if tgt is not None:
            if ty.name == "Option":
                if a.variant != b.variant:
                    return False
                if a.variant == "None":
                    return True
                xs, ys = [a.fields[0]], [b.fields[0]]
            else:
                xs, ys = a.elems, b.elems
                if len(xs) != len(ys):
                    return False
            conds = []
            for x, y in zip(xs, ys):
                r = eng.run(ctx, tgt[0], [Ref(Cell(x)), Ref(Cell(y))], tgt[1]).v
                if r is False:
                    return False
                if r is not True:
                    conds.append(r)
            return z3.And(conds) if conds else True
    return struct_eq(ctx, a, b)


def seq_to_str(v):
    try:
        return bytes(int(x.v) for x in v.elems).decode("utf-8", "replace")
    except Exception:
        return repr(v)


# ------------------------------------------------------------------------------- Vec

def vec_model(eng, ctx, cp, self_ty, trait, m, args):
    tn = trait.name if trait is not None else None
    if m == "new" and not args:
        return VecV([], None, "string" if self_ty.name == "String" else "vec")
    if m == "with_capacity":
        return VecV([], None, "vec")
    if not args:
        return NO_MODEL
    v = deref(args[0])
    if not isinstance(v, (VecV, Arr)):
        return NO_MODEL
    if m == "len":
        return seq_len(ctx, v)
    if m == "is_empty":
        return seq_is_empty(ctx, v)
    if m == "push":
        v.elems.append(args[1])
        return UNIT
    if m == "clear":
        v.elems = []
        v.opaque = None
        return UNIT
    if m == "remove":
        i = args[1]
        if is_sym(i.v):
            _unsupported("Vec::remove with symbolic index")
        if v.elems is None:
            _unsupported("Vec::remove on opaque byte string")
        if not (0 <= i.v < len(v.elems)):
            _panic("index", "removal index (is %d) should be < len (is %d)" % (i.v, len(v.elems)), cp.raw)
        return v.elems.pop(int(i.v))
    if m == "to_vec":
        return VecV(list(v.elems) if v.elems is not None else None, v.opaque, "vec")
    if m == "reverse":
        v.elems.reverse()
        return UNIT
    if m == "sort_by":
        return sort_by(eng, ctx, v, args[1])
    if m in ("as_slice", "as_bytes", "as_str", "as_mut_slice"):
        return args[0]
    if m in ("iter", "iter_mut"):
        if v.elems is None:
            _unsupported("iteration over opaque byte string")
        return IterV([Ref(v.elems, i) for i in range(len(v.elems))])
    if m == "pop":
        if not v.elems:
            return OPT_NONE()
        return OPT_SOME(v.elems.pop())
    return NO_MODEL


def sort_by(eng, ctx, v, f):
    """`slice::sort_by` is a stable sort: modelled as a stable insertion sort driven by the
    caller's comparator (which is coset MIR).  For a comparator that is a total preorder the result
    of every stable sort is the same."""
    out = []
    for x in v.elems:
        pos = len(out)
        # insert after the last element that is <= x (stability)
        k = len(out)
        while k > 0:
            o = eng.call_fnv(ctx, f, [Ref(Cell(out[k - 1])), Ref(Cell(x))])
            c = concretize_ordering(ctx, o)
            if c <= 0:
                break
            k -= 1
        out.insert(k, x)
    v.elems[:] = out
    return UNIT


# ------------------------------------------------------------------------------- iterators

def range_iter(r):
    a, b = r.fields
    if is_sym(a.v) or is_sym(b.v):
        _unsupported("symbolic range")
    return IterV([Sc(a.ty, i) for i in range(int(a.v), int(b.v))])


def iter_next(eng, ctx, it):
    if it.items is not None:
        if it.pos >= len(it.items):
            return OPT_NONE()
        x = it.items[it.pos]
        it.pos += 1
        return OPT_SOME(x)
    if it.inner is not None and it.fn is not None:
        x = iter_next(eng, ctx, it.inner)
        if x.variant == "None":
            return x
        return OPT_SOME(eng.call_fnv(ctx, it.fn, [x.fields[0]]))
    _unsupported("iterator state")


def iter_collect(eng, ctx, it, target):
    """collect::<Result<Vec<T>, E>>() stops at the first Err; collect::<Vec<T>>() takes all."""
    out = []
    as_result = target is not None and target.name == "Result"
    while True:
        x = iter_next(eng, ctx, it)
        if x.variant == "None":
            break
        y = x.fields[0]
        if as_result:
            if y.variant == "Err":
                return ERR(y.fields[0])
            y = y.fields[0]
        out.append(y)
    res = VecV(out, None, "vec")
    return OK(res) if as_result else res


# ------------------------------------------------------------------------------- BTreeSet

def _set_search(eng, ctx, elem_ty, s, key):
    """Mirror of alloc's leaf search: scan the keys in order, comparing the searched key with
    each stored key through the element type's Ord (coset MIR where it defines one)."""
    for i, k in enumerate(s.elems):
        o = eng.dispatch(ctx, _cp("<%s as Ord>::cmp" % elem_ty), [Ref(Cell(key)), Ref(Cell(k))], {})
        c = concretize_ordering(ctx, o)
        if c == 0:
            return True, i
        if c < 0:
            return False, i
    return False, len(s.elems)


def set_model(eng, ctx, self_ty, m, args):
    et = self_ty.args[0] if self_ty.args else None
    if m == "new":
        return SetV([])
    s = deref(args[0])
    if m == "contains":
        found, _ = _set_search(eng, ctx, et, s, deref(args[1]))
        return mk_bool(found)
    if m == "insert":
        found, i = _set_search(eng, ctx, et, s, args[1])
        if found:
            return mk_bool(False)
        s.elems.insert(i, args[1])
        return mk_bool(True)
    if m == "is_empty":
        return mk_bool(len(s.elems) == 0)
    if m == "len":
        return Sc("usize", len(s.elems))
    return NO_MODEL


# ------------------------------------------------------------------------------- str

WS = [0x09, 0x0A, 0x0B, 0x0C, 0x0D, 0x20]


def _is_ws(b):
    if not is_sym(b.v):
        return b.v in WS
    return z3.Or([b.v == w for w in WS])


def str_trim(ctx, r):
    """`str::trim` on an ASCII string of concrete length (stated bound: ASCII white space only;
    the non-ASCII White_Space code points are outside)."""
    v = deref(r)
    if v.elems is None:
        _unsupported("trim of opaque text")
    el = list(v.elems)
    i, j = 0, len(el)
    while i < j and ctx.branch(_is_ws(el[i]), "trim-front"):
        i += 1
    while j > i and ctx.branch(_is_ws(el[j - 1]), "trim-back"):
        j -= 1
    return Ref(Cell(VecV(el[i:j], None, "str")))


def str_matches_count(ctx, r, ch):
    v = deref(r)
    if v.elems is None:
        _unsupported("matches on opaque text")
    c = ch.v
    total = None
    n = 0
    for b in v.elems:
        if not is_sym(b.v):
            n += 1 if b.v == c else 0
        else:
            t = z3.If(b.v == z3.BitVecVal(c, 8), z3.BitVecVal(1, 64), z3.BitVecVal(0, 64))
            total = t if total is None else total + t
    cnt = Sc("usize", n if total is None else total + z3.BitVecVal(n, 64))
    it = IterV(inner=cnt, fn="matches")
    return it


# ------------------------------------------------------------------------------- byte-layer stubs

def stub_from_reader(eng, ctx, args):
    """ciborium::de::from_reader(&mut &[u8]) as a nondeterministic, *functional* parser:
       either Err(arbitrary de::Error) or Ok(arbitrary Value) consuming k <= len bytes.
       The same byte string (identity) gives the same outcome on a path.  Bytes produced by the
       writer stub on this path parse back to the tree that was written (parse(enc(v)) = v)."""
    rd = args[0]                      # the reader: `&mut &[u8]` (advanced in place) or `&[u8]` by value
    inner = rd.get()
    if not isinstance(inner, Ref):
        # reader passed by value: the caller's slice is not advanced
        rd = Ref(Cell(rd))
        inner = rd.get()
    seq = deref(inner)
    side = ctx.side
    if seq.elems is not None and all(not is_sym(x.v) for x in seq.elems):
        # concrete bytes (translator validation / replay of concrete inputs): real parse
        import concrete
        data = bytes(int(x.v) for x in seq.elems)
        try:
            tree, pos = concrete.decode(data, 0)
        except (concrete.DecodeError, UnicodeDecodeError, ValueError):
            return ERR(Adt("de::Error", "Syntax", [Sc("usize", 0)]))
        rd.set(Ref(Cell(VecV([Sc("u8", b) for b in data[pos:]], None, "vec"))))
        return OK(concrete.tree_to_value(tree))
    ident = seq.opaque.ident if seq.elems is None else ("conc", id(seq))
    ctx.side.setdefault("parse_calls", []).append(ident)
    # written on this path?
    written = side.get("written", {})
    if seq.elems is None and ident in written:
        tree = deep_clone(written[ident])
        rd.set(Ref(Cell(VecV([], None, "vec"))))
        return OK(tree)
    outcome = decide_parse(ctx, seq)
    if outcome[0] == "err":
        k = ["Io", "Syntax", "Semantic", "RecursionLimitExceeded"][outcome[1]]
        if k == "Io":
            e = Adt("de::Error", "Io", [Adt("EndOfFile", None, [])])
        elif k == "Syntax":
            e = Adt("de::Error", "Syntax", [Sc("usize", ctx.fresh_bv("syntax.offset", 64))])
        elif k == "Semantic":
            e = Adt("de::Error", "Semantic", [OPT_NONE(), VecV([], None, "string")])
        else:
            e = Adt("de::Error", "RecursionLimitExceeded", [])
        return ERR(e)
    _, node, exact = outcome
    if exact:
        rd.set(Ref(Cell(VecV([], None, "vec"))))
    else:
        rest = ctx.fresh_opaque("rest-of-" + str(ident), "vec", nonempty=True)
        rd.set(Ref(Cell(rest)))
    from values import Lazy as _L
    return OK(_L(node))


def decide_parse(ctx, seq):
    """Outcome of parsing a byte string, decided once per identity and path:
       ('ok', node, consumed_everything) | ('err', kind, None)."""
    ident = seq.opaque.ident if seq.elems is None else ("conc", id(seq))
    cache = ctx.side.setdefault("parsed", {})
    if ident in cache:
        return cache[ident]
    node = ctx.input_node_for_bytes(seq, ident)
    owner = ctx.side.get("bytes_nodes", {}).get(ident)
    ok = ctx.choose(2, "parse-ok@" + str(ident)) == 0
    if ok:
        exact = ctx.choose(2, "parse-consumes-all@" + str(ident)) == 0
        outcome = ("ok", node, exact)
    else:
        kind = ctx.choose(4, "parse-err-kind")
        outcome = ("err", kind, None)
    cache[ident] = outcome
    if owner is not None:
        owner.parse_outcome = outcome
    elif node is not None:
        node.parse_outcome = outcome
    return outcome


def stub_into_writer(eng, ctx, args):
    """ciborium::ser::into_writer(&Value, &mut Vec<u8>): records the tree it was handed and appends
    an opaque, non-empty byte string standing for its canonical encoding."""
    v = deref(args[0])
    w = deref(args[1])
    if isinstance(v, Adt) and v.ty == "Value" and ctx.side.get("label_bytes") and \
            (v.variant == "Integer" or (v.variant == "Text" and v.fields[0].elems is not None
                                        and len(v.fields[0].elems) < 24)):
        # a single integer / short text (what Label::cmp_canonical serialises): the reference
        # deterministic encoding as concrete-length bytes with symbolic content
        if not isinstance(w, VecV) or w.elems:
            _unsupported("into_writer into a non-empty buffer")
        w.elems, w.opaque = leaf_encoding(ctx, v), None
        return OK(UNIT)
    snap = deep_clone(v)
    out = ctx.fresh_opaque("enc", "vec", nonempty=True)
    ctx.side.setdefault("written", {})[out.opaque.ident] = snap
    ctx.side.setdefault("writer_calls", []).append((out.opaque.ident, snap))
    if isinstance(w, VecV):
        if w.elems:
            _unsupported("into_writer into a non-empty buffer")
        w.elems, w.opaque = None, out.opaque
    else:
        _unsupported("writer %r" % (w,))
    return OK(UNIT)


def leaf_encoding(ctx, v):
    """RFC 8949 shortest-form encoding of an integer / short text Value as a list of byte scalars."""
    if v.variant == "Text":
        el = v.fields[0].elems
        return [Sc("u8", 0x60 + len(el))] + list(el)
    x = v.fields[0].fields[0]           # i128
    if not is_sym(x.v):
        import concrete
        return [Sc("u8", b) for b in concrete.encode(("int", int(x.v)))]
    t = x.v
    neg = ctx.branch(t < 0, "enc:negative")
    n = z3.simplify(z3.Extract(63, 0, (-1 - t) if neg else t))
    mt = 0x20 if neg else 0x00
    bounds = [(24, 0), (0x100, 1), (0x10000, 2), (0x100000000, 4)]
    conds = [z3.ULT(n, z3.BitVecVal(b, 64)) for b, _ in bounds]
    classes = [conds[0]] + [z3.And(z3.Not(conds[i - 1]), conds[i]) for i in range(1, 4)] + [z3.Not(conds[3])]
    k = ctx.choose_cond(classes, "enc:int-width")
    if k == 0:
        return [Sc("u8", z3.simplify(z3.BitVecVal(mt, 8) | z3.Extract(7, 0, n)))]
    width = [1, 2, 4, 8][k - 1]
    out = [Sc("u8", mt | (23 + k))]
    for i in reversed(range(width)):
        out.append(Sc("u8", z3.simplify(z3.Extract(8 * i + 7, 8 * i, n))))
    return out
