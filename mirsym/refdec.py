"""Independent reference decoders ("the specification"), written from RFC 8152 / RFC 8392 and the
property statements -- never from coset's code.  They run on the same lazy input nodes as the code
under test, inside the same path exploration: symbolic conditions are resolved with ctx.branch(),
so on each resulting path the reference outcome is concrete and can be compared with coset's.

Result of a reference decode: (expected value or None, faults) where faults is a list of fault
kinds found in the input (all of them, not just the first):
   'type'   wrong CBOR kind / shape / arity / emptiness / rule violation (-> any rejection)
   'range'  an interpreted integer outside the supported range (-> OutOfRangeIntegerValue)
   'dup'    two map keys denoting the same label (-> DuplicateMapKey)
   'unreg'  unregistered value in a registry position
   'parse'  a byte string that had to contain exactly one CBOR item does not
`incomplete` is set when a verdict needed a part of the input that is still undecided (lenient
mode); the caller then repeats in strict mode, which decides such parts (forking).
"""
import json
import os

import z3

import models
from values import (UNIT, Adt, BoxV, Cell, Lazy, Ref, Sc, SetV, Tup, VecV, bv, is_sym)

I64_MIN, I64_MAX = -(1 << 63), (1 << 63) - 1
U64_MAX = (1 << 64) - 1


def load_tables(path=None):
    path = path or os.path.join(os.path.dirname(os.path.dirname(os.path.abspath(__file__))), "iana_ref.json")
    d = json.load(open(path))
    return {k: {"private": v["private_use"], "rows": {n: i for n, i in v["rows"]}}
            for k, v in d.items() if isinstance(v, dict)}


class Incomplete(Exception):
    pass


class RefDec:
    def __init__(self, ctx, impls, tables, strict=False):
        self.ctx, self.impls, self.tables, self.strict = ctx, impls, tables, strict
        self.faults = []
        self.incomplete = False

    # ---- plumbing ---------------------------------------------------------------------
    def kind(self, node):
        if node.kind is None:
            if not self.strict:
                self.incomplete = True
                return None
            node.decide(self.ctx)
        return node.kind

    def fault(self, k, where=""):
        self.faults.append((k, where))
        return None

    def mk(self, ty, **fields):
        order = self.impls.struct_fields(ty)
        if order is None or set(order) != set(fields):
            from interp import Unsupported
            raise Unsupported("reference model of struct %s has fields %s but the source declares %s"
                              % (ty, sorted(fields), order))
        return Adt(ty, None, [fields[n] for n in order])

    def br(self, cond, label):
        return self.ctx.branch(cond, "ref:" + label)

    # ---- leaves ------------------------------------------------------------------------
    def int_i64(self, node, where):
        """Integer node -> i64 scalar, or fault 'range'."""
        x = node.int
        ok = z3.And(x >= z3.BitVecVal(I64_MIN, 128), x <= z3.BitVecVal(I64_MAX, 128))
        if self.br(ok, "fits-i64"):
            return Sc("i64", z3.simplify(z3.Extract(63, 0, x)))
        return self.fault("range", where)

    def int_u64(self, node, where):
        x = node.int
        ok = z3.And(x >= z3.BitVecVal(0, 128), x <= z3.BitVecVal(U64_MAX, 128))
        if self.br(ok, "fits-u64"):
            return Sc("u64", z3.simplify(z3.Extract(63, 0, x)))
        return self.fault("range", where)

    def bytes_of(self, node):
        return VecV(None if node.bytes.elems is None else list(node.bytes.elems), node.bytes.opaque, "vec")

    def text_of(self, node):
        return VecV(None if node.text.elems is None else list(node.text.elems), node.text.opaque, "string")

    def nonempty_bytes(self, node, where):
        k = self.kind(node)
        if k is None:
            return None
        if k != "Bytes":
            return self.fault("type", where)
        n = models.seq_len(self.ctx, node.bytes)
        if self.br((n.v == 0) if is_sym(n.v) else (n.v == 0), "empty-bstr"):
            return self.fault("type", where + ":empty")
        return self.bytes_of(node)

    def bstr(self, node, where):
        k = self.kind(node)
        if k is None:
            return None
        if k != "Bytes":
            return self.fault("type", where)
        return self.bytes_of(node)

    def bstr_or_nil(self, node, where):
        k = self.kind(node)
        if k is None:
            return None
        if k == "Null":
            return Adt("Option", "None", [])
        if k == "Bytes":
            return Adt("Option", "Some", [self.bytes_of(node)])
        return self.fault("type", where)

    def tstr(self, node, where):
        k = self.kind(node)
        if k is None:
            return None
        if k != "Text":
            return self.fault("type", where)
        return self.text_of(node)

    # ---- labels ------------------------------------------------------------------------------
    def label(self, node, where):
        k = self.kind(node)
        if k is None:
            return None
        if k == "Integer":
            i = self.int_i64(node, where)
            return None if i is None else Adt("Label", "Int", [i])
        if k == "Text":
            return Adt("Label", "Text", [self.text_of(node)])
        return self.fault("type", where + ":label-kind")

    def in_table(self, reg, i64term):
        nums = sorted(self.tables[reg]["rows"].values())
        return z3.Or([i64term == z3.BitVecVal(n, 64) for n in nums])

    def reg_label(self, reg, node, where):
        """RegisteredLabel<T>: registered integer or text."""
        k = self.kind(node)
        if k is None:
            return None
        if k == "Integer":
            i = self.int_i64(node, where)
            if i is None:
                return None
            if self.br(self.in_table(reg, i.v), "registered-" + reg):
                return Adt("RegisteredLabel", "Assigned", [Sc("isize", i.v, enum=reg)])
            return self.fault("unreg", where)
        if k == "Text":
            return Adt("RegisteredLabel", "Text", [self.text_of(node)])
        return self.fault("type", where + ":label-kind")

    def priv_label(self, reg, node, where):
        """RegisteredLabelWithPrivate<T>: registered, or private-use (< -65536), or text."""
        k = self.kind(node)
        if k is None:
            return None
        if k == "Integer":
            i = self.int_i64(node, where)
            if i is None:
                return None
            if self.br(self.in_table(reg, i.v), "registered-" + reg):
                return Adt("RegisteredLabelWithPrivate", "Assigned", [Sc("isize", i.v, enum=reg)])
            if self.br(i.v < z3.BitVecVal(-65536, 64), "private-" + reg):
                return Adt("RegisteredLabelWithPrivate", "PrivateUse", [i])
            return self.fault("unreg", where)
        if k == "Text":
            return Adt("RegisteredLabelWithPrivate", "Text", [self.text_of(node)])
        return self.fault("type", where + ":label-kind")

    def same_label(self, a, b):
        """Do two decoded labels denote the same label?  (int = int, text = text)"""
        ia = a.variant in ("Int", "Assigned", "PrivateUse")
        ib = b.variant in ("Int", "Assigned", "PrivateUse")
        if ia != ib:
            return False
        if ia:
            return self.br(bv(a.fields[0]) == bv(b.fields[0]), "same-int-label")
        c = models.bytes_eq(self.ctx, a.fields[0], b.fields[0])
        if c is True or c is False:
            return c
        return self.br(c, "same-text-label")

    def label_is(self, lab, n):
        if lab.variant == "Text":
            return False
        return self.br(bv(lab.fields[0]) == z3.BitVecVal(n, 64), "label==%d" % n)

    # ---- header map --------------------------------------------------------------------------------
    def header(self, node, where="hdr"):
        k = self.kind(node)
        if k is None:
            return None
        if k != "Map":
            return self.fault("type", where + ":not-map")
        alg = Adt("Option", "None", [])
        crit = []
        ctype = Adt("Option", "None", [])
        kid, iv, piv = VecV([], None, "vec"), VecV([], None, "vec"), VecV([], None, "vec")
        have_iv = have_piv = False
        csigs = []
        rest = []
        seen = []
        bad = False
        for n, (kn, vn) in enumerate(node.entries):
            w = "%s{%d}" % (where, n)
            lab = self.label(kn, w)
            if lab is None:
                bad = True
                continue
            if any(self.same_label(lab, s) for s in seen):
                self.fault("dup", w)
                bad = True
                continue
            seen.append(lab)
            if self.label_is(lab, 1):
                a = self.priv_label("Algorithm", vn, w + ":alg")
                if a is None:
                    bad = True
                else:
                    alg = Adt("Option", "Some", [a])
            elif self.label_is(lab, 2):
                kk = self.kind(vn)
                if kk is None:
                    bad = True
                elif kk != "Array" or len(vn.items) == 0:
                    self.fault("type", w + ":crit")
                    bad = True
                else:
                    for j, it in enumerate(vn.items):
                        c = self.reg_label("HeaderParameter", it, "%s:crit[%d]" % (w, j))
                        if c is None:
                            bad = True
                        else:
                            crit.append(c)
            elif self.label_is(lab, 3):
                c = self.content_type(vn, w + ":content-type")
                if c is None:
                    bad = True
                else:
                    ctype = Adt("Option", "Some", [c])
            elif self.label_is(lab, 4):
                b = self.nonempty_bytes(vn, w + ":kid")
                if b is None:
                    bad = True
                else:
                    kid = b
            elif self.label_is(lab, 5):
                b = self.nonempty_bytes(vn, w + ":iv")
                if b is None:
                    bad = True
                else:
                    iv, have_iv = b, True
            elif self.label_is(lab, 6):
                b = self.nonempty_bytes(vn, w + ":partial-iv")
                if b is None:
                    bad = True
                else:
                    piv, have_piv = b, True
            elif self.label_is(lab, 7):
                s = self.counter_signatures(vn, w + ":countersig")
                if s is None:
                    bad = True
                else:
                    csigs = s
            else:
                rest.append(Tup([lab, Lazy(vn)]))
        if have_iv and have_piv:
            self.fault("type", where + ":iv-and-partial-iv")
            bad = True
        if bad:
            return None
        return self.mk("Header", alg=alg, crit=VecV(crit, None, "vec"), content_type=ctype, key_id=kid,
                       iv=iv, partial_iv=piv, counter_signatures=VecV(csigs, None, "vec"),
                       rest=VecV(rest, None, "vec"))

    def content_type(self, node, where):
        k = self.kind(node)
        if k is None:
            return None
        if k == "Integer":
            return self.reg_label("CoapContentFormat", node, where)
        if k != "Text":
            return self.fault("type", where)
        t = node.text
        if t.elems is None:
            from interp import Unsupported
            raise Unsupported("content-type text must be explored with concrete length")
        n = len(t.elems)
        if n == 0:
            return self.fault("type", where + ":empty")
        # "whitespace" = Unicode White_Space (what a text string's trim removes), as UTF-8 sequences;
        # a sequence at the start / end of well-formed UTF-8 is a whole character (every sequence
        # below begins with a lead byte)
        ws = [[b] for b in (0x09, 0x0A, 0x0B, 0x0C, 0x0D, 0x20)] + [[0xC2, 0x85], [0xC2, 0xA0], [0xE1, 0x9A, 0x80]] + \
            [[0xE2, 0x80, x] for x in list(range(0x80, 0x8B)) + [0xA8, 0xA9, 0xAF]] + [[0xE2, 0x81, 0x9F], [0xE3, 0x80, 0x80]]

        def seq_at(i, seq):
            return z3.And([bv(t.elems[i + j]) == seq[j] for j in range(len(seq))])
        lead = z3.Or([seq_at(0, q) for q in ws if len(q) <= n])
        trail = z3.Or([seq_at(n - len(q), q) for q in ws if len(q) <= n])
        if self.br(z3.Or(lead, trail), "ct-ws"):
            return self.fault("type", where + ":whitespace")
        cnt = z3.Sum([z3.If(bv(b) == 0x2F, 1, 0) for b in t.elems])
        if not self.br(cnt == 1, "ct-one-slash"):
            return self.fault("type", where + ":slashes")
        return Adt("RegisteredLabel", "Text", [self.text_of(node)])

    def counter_signatures(self, node, where):
        k = self.kind(node)
        if k is None:
            return None
        if k != "Array" or len(node.items) == 0:
            return self.fault("type", where)
        first = self.kind(node.items[0])
        if first is None:
            return None
        if first == "Bytes":
            s = self.signature(node, where)
            return None if s is None else [s]
        if first == "Array":
            out, bad = [], False
            for j, it in enumerate(node.items):
                s = self.signature(it, "%s[%d]" % (where, j))
                if s is None:
                    bad = True
                else:
                    out.append(s)
            return None if bad else out
        return self.fault("type", where + ":first")

    # ---- protected header bstr ------------------------------------------------------------------------
    def protected(self, node, where="prot"):
        k = self.kind(node)
        if k is None:
            return None
        if k != "Bytes":
            return self.fault("type", where + ":not-bstr")
        n = models.seq_len(self.ctx, node.bytes)
        if self.br(n.v == 0, "prot-empty"):
            hdr = self.empty_header()
        else:
            oc = node.parse_outcome
            if oc is None:
                if not self.strict:
                    self.incomplete = True
                    return None
                oc = models.decide_parse(self.ctx, node.bytes)
            if oc[0] == "err":
                return self.fault("parse", where + ":malformed")
            if not oc[2]:
                return self.fault("parse", where + ":trailing")
            hdr = self.header(node.parsed, where + ".map")
            if hdr is None:
                return None
        return self.mk("ProtectedHeader", original_data=Adt("Option", "Some", [self.bytes_of(node)]), header=hdr)

    def empty_header(self):
        e = lambda: VecV([], None, "vec")
        return self.mk("Header", alg=Adt("Option", "None", []), crit=e(), content_type=Adt("Option", "None", []),
                       key_id=e(), iv=e(), partial_iv=e(), counter_signatures=e(), rest=e())

    # ---- message structures (RFC 8152 sections 4, 5, 6) ---------------------------------------------------
    def _array(self, node, arities, where):
        k = self.kind(node)
        if k is None:
            return None
        if k != "Array":
            return self.fault("type", where + ":not-array")
        if len(node.items) not in arities:
            return self.fault("type", where + ":arity")
        return node.items

    def _headers(self, items, where):
        p = self.protected(items[0], where + ".protected")
        u = self.header(items[1], where + ".unprotected")
        return p, u

    def signature(self, node, where="sig"):
        it = self._array(node, (3,), where)
        if it is None:
            return None
        p, u = self._headers(it, where)
        s = self.bstr(it[2], where + ".signature")
        if p is None or u is None or s is None:
            return None
        return self.mk("CoseSignature", protected=p, unprotected=u, signature=s)

    def sign1(self, node, where="sign1"):
        it = self._array(node, (4,), where)
        if it is None:
            return None
        p, u = self._headers(it, where)
        pl = self.bstr_or_nil(it[2], where + ".payload")
        s = self.bstr(it[3], where + ".signature")
        if None in (p, u, pl, s):
            return None
        return self.mk("CoseSign1", protected=p, unprotected=u, payload=pl, signature=s)

    def _list(self, node, elem, where):
        """array of nested structures (emptiness left unspecified by the property)"""
        k = self.kind(node)
        if k is None:
            return None
        if k != "Array":
            return self.fault("type", where + ":not-array")
        out, bad = [], False
        for j, n in enumerate(node.items):
            e = elem(n, "%s[%d]" % (where, j))
            if e is None:
                bad = True
            else:
                out.append(e)
        return None if bad else VecV(out, None, "vec")

    def sign(self, node, where="sign"):
        it = self._array(node, (4,), where)
        if it is None:
            return None
        p, u = self._headers(it, where)
        pl = self.bstr_or_nil(it[2], where + ".payload")
        sigs = self._list(it[3], self.signature, where + ".signatures")
        if None in (p, u, pl, sigs):
            return None
        return self.mk("CoseSign", protected=p, unprotected=u, payload=pl, signatures=sigs)

    def mac0(self, node, where="mac0"):
        it = self._array(node, (4,), where)
        if it is None:
            return None
        p, u = self._headers(it, where)
        pl = self.bstr_or_nil(it[2], where + ".payload")
        t = self.bstr(it[3], where + ".tag")
        if None in (p, u, pl, t):
            return None
        return self.mk("CoseMac0", protected=p, unprotected=u, payload=pl, tag=t)

    def mac(self, node, where="mac"):
        it = self._array(node, (5,), where)
        if it is None:
            return None
        p, u = self._headers(it, where)
        pl = self.bstr_or_nil(it[2], where + ".payload")
        t = self.bstr(it[3], where + ".tag")
        rs = self._list(it[4], self.recipient, where + ".recipients")
        if None in (p, u, pl, t, rs):
            return None
        return self.mk("CoseMac", protected=p, unprotected=u, payload=pl, tag=t, recipients=rs)

    def encrypt0(self, node, where="enc0"):
        it = self._array(node, (3,), where)
        if it is None:
            return None
        p, u = self._headers(it, where)
        ct = self.bstr_or_nil(it[2], where + ".ciphertext")
        if None in (p, u, ct):
            return None
        return self.mk("CoseEncrypt0", protected=p, unprotected=u, ciphertext=ct)

    def encrypt(self, node, where="enc"):
        it = self._array(node, (4,), where)
        if it is None:
            return None
        p, u = self._headers(it, where)
        ct = self.bstr_or_nil(it[2], where + ".ciphertext")
        rs = self._list(it[3], self.recipient, where + ".recipients")
        if None in (p, u, ct, rs):
            return None
        return self.mk("CoseEncrypt", protected=p, unprotected=u, ciphertext=ct, recipients=rs)

    def recipient(self, node, where="rcpt"):
        it = self._array(node, (3, 4), where)
        if it is None:
            return None
        p, u = self._headers(it, where)
        ct = self.bstr_or_nil(it[2], where + ".ciphertext")
        rs = VecV([], None, "vec")
        if len(it) == 4:
            rs = self._list(it[3], self.recipient, where + ".recipients")
        if None in (p, u, ct, rs):
            return None
        return self.mk("CoseRecipient", protected=p, unprotected=u, ciphertext=ct, recipients=rs)

    # ---- COSE_Key (RFC 8152 section 7) -------------------------------------------------------------------
    def key(self, node, where="key"):
        k = self.kind(node)
        if k is None:
            return None
        if k != "Map":
            return self.fault("type", where + ":not-map")
        kty = None
        kid, biv = VecV([], None, "vec"), VecV([], None, "vec")
        alg = Adt("Option", "None", [])
        ops = []
        params = []
        seen = []
        bad = False
        for n, (kn, vn) in enumerate(node.entries):
            w = "%s{%d}" % (where, n)
            lab = self.label(kn, w)
            if lab is None:
                bad = True
                continue
            if any(self.same_label(lab, s) for s in seen):
                self.fault("dup", w)
                bad = True
                continue
            seen.append(lab)
            if self.label_is(lab, 1):
                t = self.reg_label("KeyType", vn, w + ":kty")
                if t is None:
                    bad = True
                else:
                    if t.variant == "Assigned" and self.br(bv(t.fields[0]) == 0, "kty-reserved"):
                        self.fault("type", w + ":kty-reserved")
                        bad = True
                    else:
                        kty = t
            elif self.label_is(lab, 2):
                b = self.nonempty_bytes(vn, w + ":kid")
                if b is None:
                    bad = True
                else:
                    kid = b
            elif self.label_is(lab, 3):
                a = self.priv_label("Algorithm", vn, w + ":alg")
                if a is None:
                    bad = True
                else:
                    alg = Adt("Option", "Some", [a])
            elif self.label_is(lab, 4):
                kk = self.kind(vn)
                if kk is None:
                    bad = True
                elif kk != "Array" or len(vn.items) == 0:
                    self.fault("type", w + ":key_ops")
                    bad = True
                else:
                    got = []
                    for j, itn in enumerate(vn.items):
                        o = self.reg_label("KeyOperation", itn, "%s:key_ops[%d]" % (w, j))
                        if o is None:
                            bad = True
                            continue
                        if any(self.same_label(o, p) for p in got):
                            self.fault("type", "%s:key_ops-repeat" % w)
                            bad = True
                            continue
                        got.append(o)
                    ops = got
            elif self.label_is(lab, 5):
                b = self.nonempty_bytes(vn, w + ":base-iv")
                if b is None:
                    bad = True
                else:
                    biv = b
            else:
                params.append(Tup([lab, Lazy(vn)]))
        if kty is None and not bad:
            self.fault("type", where + ":no-kty")
            bad = True
        if bad:
            return None
        return self.mk("CoseKey", kty=kty, key_id=kid, alg=alg, key_ops=SetV(ops), base_iv=biv,
                       params=VecV(params, None, "vec"))

    def keyset(self, node, where="keyset"):
        k = self.kind(node)
        if k is None:
            return None
        if k != "Array":
            return self.fault("type", where)
        out, bad = [], False
        for j, n in enumerate(node.items):
            e = self.key(n, "%s[%d]" % (where, j))
            if e is None:
                bad = True
            else:
                out.append(e)
        return None if bad else self.mk("CoseKeySet", **{"0": VecV(out, None, "vec")})

    # ---- CWT claims set (RFC 8392) ---------------------------------------------------------------------------
    def timestamp(self, node, where):
        k = self.kind(node)
        if k is None:
            return None
        if k == "Integer":
            i = self.int_i64(node, where)
            return None if i is None else Adt("Timestamp", "WholeSeconds", [i])
        if k == "Float":
            return Adt("Timestamp", "FractionalSeconds", [Sc("f64", node.float)])
        return self.fault("type", where)

    def claims(self, node, where="cwt"):
        k = self.kind(node)
        if k is None:
            return None
        if k != "Map":
            return self.fault("type", where + ":not-map")
        none = lambda: Adt("Option", "None", [])
        f = {"issuer": none(), "subject": none(), "audience": none(), "expiration_time": none(),
             "not_before": none(), "issued_at": none(), "cwt_id": none()}
        rest, seen, bad = [], [], False
        for n, (kn, vn) in enumerate(node.entries):
            w = "%s{%d}" % (where, n)
            lab = self.priv_label("CwtClaimName", kn, w)
            if lab is None:
                bad = True
                continue
            if any(self.same_label(lab, s) for s in seen):
                self.fault("dup", w)
                bad = True
                continue
            seen.append(lab)
            done = False
            for num, name, how in ((1, "issuer", self.tstr), (2, "subject", self.tstr), (3, "audience", self.tstr),
                                   (4, "expiration_time", self.timestamp), (5, "not_before", self.timestamp),
                                   (6, "issued_at", self.timestamp), (7, "cwt_id", self.bstr)):
                if self.label_is(lab, num):
                    kk = self.kind(vn)
                    if kk is None:
                        bad = True
                    else:
                        v = how(vn, "%s:%s" % (w, name))
                        if v is None:
                            bad = True
                        else:
                            f[name] = Adt("Option", "Some", [v])
                    done = True
                    break
            if not done:
                rest.append(Tup([lab, Lazy(vn)]))
        if bad:
            return None
        return self.mk("ClaimsSet", rest=VecV(rest, None, "vec"), **f)

    # ---- COSE_KDF_Context (RFC 8152 section 11.2) ---------------------------------------------------------
    def party_info(self, node, where="party"):
        it = self._array(node, (3,), where)
        if it is None:
            return None
        ident = self.bstr_or_nil(it[0], where + ".identity")
        other = self.bstr_or_nil(it[2], where + ".other")
        nonce = None
        k = self.kind(it[1])
        if k == "Null":
            nonce = Adt("Option", "None", [])
        elif k == "Bytes":
            nonce = Adt("Option", "Some", [Adt("Nonce", "Bytes", [self.bytes_of(it[1])])])
        elif k == "Integer":
            i = self.int_i64(it[1], where + ".nonce")
            nonce = None if i is None else Adt("Option", "Some", [Adt("Nonce", "Integer", [i])])
        elif k is not None:
            self.fault("type", where + ".nonce")
        if None in (ident, other, nonce):
            return None
        return self.mk("PartyInfo", identity=ident, nonce=nonce, other=other)

    def supp_pub_info(self, node, where="supp"):
        it = self._array(node, (2, 3), where)
        if it is None:
            return None
        kdl = None
        k = self.kind(it[0])
        if k == "Integer":
            kdl = self.int_u64(it[0], where + ".keyDataLength")
        elif k is not None:
            self.fault("type", where + ".keyDataLength")
        p = self.protected(it[1], where + ".protected")
        other = Adt("Option", "None", [])
        if len(it) == 3:
            b = self.bstr(it[2], where + ".other")
            other = None if b is None else Adt("Option", "Some", [b])
        if None in (kdl, p, other):
            return None
        return self.mk("SuppPubInfo", key_data_length=kdl, protected=p, other=other)

    def kdf_context(self, node, where="kdf"):
        k = self.kind(node)
        if k is None:
            return None
        if k != "Array":
            return self.fault("type", where + ":not-array")
        it = node.items
        if len(it) < 4:
            return self.fault("type", where + ":arity")
        alg = self.priv_label("Algorithm", it[0], where + ".alg")
        u = self.party_info(it[1], where + ".partyU")
        v = self.party_info(it[2], where + ".partyV")
        s = self.supp_pub_info(it[3], where + ".suppPub")
        priv, bad = [], False
        for j, n in enumerate(it[4:]):
            b = self.bstr(n, "%s.suppPriv[%d]" % (where, j))
            if b is None:
                bad = True
            else:
                priv.append(b)
        if None in (alg, u, v, s) or bad:
            return None
        return self.mk("CoseKdfContext", algorithm_id=alg, party_u_info=u, party_v_info=v, supp_pub_info=s,
                       supp_priv_info=VecV(priv, None, "vec"))


DECODERS = {
    "Label": ("label", "common::Label"),
    "Header": ("header", "header::Header"),
    "CoseSignature": ("signature", "sign::CoseSignature"),
    "CoseSign": ("sign", "sign::CoseSign"),
    "CoseSign1": ("sign1", "sign::CoseSign1"),
    "CoseMac": ("mac", "mac::CoseMac"),
    "CoseMac0": ("mac0", "mac::CoseMac0"),
    "CoseEncrypt": ("encrypt", "encrypt::CoseEncrypt"),
    "CoseEncrypt0": ("encrypt0", "encrypt::CoseEncrypt0"),
    "CoseRecipient": ("recipient", "encrypt::CoseRecipient"),
    "CoseKey": ("key", "key::CoseKey"),
    "CoseKeySet": ("keyset", "key::CoseKeySet"),
    "ClaimsSet": ("claims", "cwt::ClaimsSet"),
    "PartyInfo": ("party_info", "context::PartyInfo"),
    "SuppPubInfo": ("supp_pub_info", "context::SuppPubInfo"),
    "CoseKdfContext": ("kdf_context", "context::CoseKdfContext"),
}
