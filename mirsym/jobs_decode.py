"""Jobs that compare coset's decoders with the reference decoders over lazily explored inputs
(C08, C09, C10, C12-decode, C15-containers, C18-decode)."""
import time

import concrete
import hcommon
import refdec
from hcommon import JobResult
from interp import Panic
from lazy import Policy


class NodePolicy(Policy):
    """Bounds that depend on the position in the input tree."""

    def __init__(self, rules=None, **kw):
        Policy.__init__(self, **kw)
        self.rules = rules or []

    def for_node(self, node):
        for pred, pol in self.rules:
            if pred(node):
                return pol
        return self


def decode_job(eng, tables, prop, tname, policy, deadline, max_paths=None, initial=None, bfs=False,
               tag="", kinds=(), slice_s=None):
    if isinstance(policy, dict):
        policy = Policy(**policy)
    method, path = refdec.DECODERS[tname]
    job = JobResult("decode:%s%s" % (tname, tag))
    entry = "<%s as AsCborValue>::from_cbor_value" % path
    seen_keys = {}

    def harness(ctx):
        v = ctx.lazy_value("v", policy)
        r = ctx.call(entry, [v])
        d = hcommon.compare_with_reference(ctx, eng, tables, method, v.node, r, kinds=kinds)
        return (r, d)

    def on_leaf(ctx, out):
        node = ctx.inputs["v"]
        res, is_panic = None, False
        if out[0] == "panic":
            key = "%s:%s:panic:%s" % (prop, tname, out[1].kind)
            what = "decoding panics: %s" % out[1]
            is_panic = True
        elif out[0] == "depth":
            key = "%s:%s:depth" % (prop, tname)
            what = "call depth bound exceeded: %s" % out[1]
        elif out[0] == "ok":
            r, d = out[1]
            if r.variant == "Ok":
                job.accepting += 1
            else:
                job.rejecting += 1
            if len(job.samples) < 3 and (r.variant == "Ok" or job.paths % 50 == 0):
                m = ctx.model()
                if m is not None:
                    job.samples.append({"type": tname, "input_hex": concrete.encode(
                        concrete.node_to_tree(m, node, {})).hex(), "outcome": r.variant})
            if d is None:
                return
            key = "%s:%s:%s" % (prop, tname, d["class"])
            what = "%s: %s" % (tname, d["what"])
            res = r
        else:
            return
        if seen_keys.get(key, 0) >= 2:
            seen_keys[key] += 1
            return
        seen_keys[key] = seen_keys.get(key, 0) + 1
        rec = hcommon.finding_from_path(ctx, eng, prop, key, what, "decodev", tname, node,
                                        result=res, panic=is_panic)
        if rec is not None:
            job.findings.append(rec)

    hcommon.run_paths(eng, job, lambda ctx: harness(ctx), deadline, max_paths, on_leaf, initial=initial, bfs=bfs,
                      slice_s=slice_s)
    job.extra["finding_counts"] = seen_keys
    return job
