"""C13 / C14 (byte-level vs Value-level API, tags), C16 (canonical order), C20 (canonicalize),
C01 (totality and nesting depth)."""
import z3

import concrete
import hcommon
import models
import refdec
import refenc
from hcommon import JobResult
from interp import Panic, Unsupported
from jobs_struct import PATHS, f_, slice_ref
from lazy import InputNode, Policy
from values import (UNIT, Adt, Arr, BoxV, Cell, FnV, Lazy, Opaque, Ref, Sc, SetV, Tup, VecV, bv, deep_clone, is_sym)

# RFC 8152 section 2, Table 1 (independent of coset's constants)
REGISTERED_TAG = {"CoseSign": 98, "CoseSign1": 18, "CoseEncrypt": 96, "CoseEncrypt0": 16, "CoseMac": 97, "CoseMac0": 17}


def result_eq(ctx, a, b):
    if a.variant != b.variant:
        return False
    if a.variant == "Ok":
        return hcommon.spec_eq(ctx, a.fields[0], b.fields[0])
    # both reject: the error kind must agree (the texts inside UnexpectedItem are diagnostics, and
    # the native replay compares kinds only)
    ea, eb = a.fields[0], b.fields[0]
    return ea.variant == eb.variant


def api_job(eng, tables, prop, tname, policy, deadline, max_paths=None, initial=None, bfs=False, slice_s=None,
            via_bstr=False):
    """from_slice = from_cbor_value . parse (with exactly-one-item discipline); to_vec = serialise .
    to_cbor_value; tagged forms wrap / unwrap exactly the registered tag."""
    if isinstance(policy, dict):
        policy = Policy(**policy)
    path = PATHS.get(tname) or {"Label": "common::Label", "ProtectedHeader": "header::ProtectedHeader"}[tname]
    job = JobResult("api:%s%s" % (tname, ":bstr" if via_bstr else ""))
    seen = {}
    tagged = tname in REGISTERED_TAG

    def harness_bstr(ctx):
        """a protected header taken out of a bstr (it keeps the wire bytes): its byte-level encoding is
        the serialisation of its Value-level encoding"""
        eng.policy = policy
        problems = []
        empty = ctx.choose(2, "empty-bstr") == 1
        data = VecV([], None, "vec") if empty else ctx.fresh_opaque("input", "vec", nonempty=True)
        if not empty:
            ctx.side["input_ident"] = data.opaque.ident
        ctx.side["mode"] = "bstr"
        r = ctx.call("header::ProtectedHeader::from_cbor_bstr", [Adt("Value", "Bytes", [data])])
        if r.variant != "Ok":
            return problems
        if not empty:
            oc = ctx.side.get("parsed", {}).get(data.opaque.ident)
            if oc is not None and oc[0] == "ok":
                ctx.side["node"] = oc[1]
                ctx.side["exact"] = oc[2]
        x = r.fields[0]
        rv = ctx.call("<%s as AsCborValue>::to_cbor_value" % path, [deep_clone(x)])
        rb = ctx.call("<%s as CborSerializable>::to_vec" % path, [x])
        if rv.variant != rb.variant:
            return [("layers-encode", "byte-level and Value-level encoding disagree on success")]
        if rb.variant == "Ok":
            out = rb.fields[0]
            tree = ctx.side.get("written", {}).get(out.opaque.ident if out.elems is None else None)
            if tree is None:
                return [("layers-encode", "to_vec output is not the serialisation of a Value")]
            from jobs_struct import deep_value_eq
            e2 = deep_value_eq(ctx, tree, rv.fields[0])
            if e2 is not True and (e2 is False or ctx.check(z3.Not(e2))):
                return [("layers-encode", "byte-level encoding is not the serialisation of to_cbor_value")]
        return problems

    def harness(ctx):
        if via_bstr:
            return harness_bstr(ctx)
        eng.policy = policy
        problems = []
        use_tag = tagged and ctx.choose(2, "tagged") == 1
        data = ctx.fresh_opaque("input", "vec")
        ctx.side["input_ident"] = data.opaque.ident
        ctx.side["mode"] = "tagged" if use_tag else "plain"
        entry = "<%s as TaggedCborSerializable>::from_tagged_slice" if use_tag else "<%s as CborSerializable>::from_slice"
        r = ctx.call(entry % path, [slice_ref(data)])
        oc = models.decide_parse(ctx, data)
        ctx.side["mode"] = "tagged" if use_tag else "plain"
        if oc[0] == "err":
            if not (r.variant == "Err" and r.fields[0].variant == "DecodeFailed"):
                problems.append(("parse-error", "unparsable input not reported as DecodeFailed"))
            return problems
        node, exact = oc[1], oc[2]
        ctx.side["node"] = node
        ctx.side["exact"] = exact
        if not exact:
            if not (r.variant == "Err" and r.fields[0].variant == "ExtraneousData"):
                problems.append(("extraneous", "input with trailing bytes not rejected with ExtraneousData"))
            return problems
        if use_tag:
            k = node.decide(ctx)
            if k != "Tag":
                if r.variant != "Err":
                    problems.append(("tag", "untagged item accepted by tagged decoding"))
                return problems
            if not ctx.branch(node.tag == REGISTERED_TAG[tname], "registered-tag"):
                if r.variant != "Err":
                    problems.append(("tag", "tag number other than the registered one accepted"))
                return problems
            inner = Lazy(node.child)
        else:
            inner = Lazy(node)
        r2 = ctx.call("<%s as AsCborValue>::from_cbor_value" % path, [inner])
        eq = result_eq(ctx, r, r2)
        if eq is not True and (eq is False or ctx.check(z3.Not(eq))):
            if eq is not False:
                ctx.assume(z3.Not(eq))
            problems.append(("layers", "byte-level decoding disagrees with parse-then-convert"))
            return problems
        if r.variant != "Ok":
            return problems
        # encode direction
        x = r.fields[0]
        rv = ctx.call("<%s as AsCborValue>::to_cbor_value" % path, [deep_clone(x)])
        enc = "<%s as TaggedCborSerializable>::to_tagged_vec" if use_tag else "<%s as CborSerializable>::to_vec"
        rb = ctx.call(enc % path, [x])
        if rv.variant != rb.variant:
            problems.append(("layers-encode", "byte-level and Value-level encoding disagree on success"))
            return problems
        if rb.variant == "Ok":
            tree = ctx.side.get("written", {}).get(rb.fields[0].opaque.ident if rb.fields[0].elems is None else None)
            want = rv.fields[0]
            if use_tag:
                want = Adt("Value", "Tag", [Sc("u64", REGISTERED_TAG[tname]), BoxV(Cell(want))])
            if tree is None:
                problems.append(("layers-encode", "to_vec output is not the serialisation of a Value"))
            else:
                from jobs_struct import deep_value_eq
                e2 = deep_value_eq(ctx, tree, want)
                if e2 is not True and (e2 is False or ctx.check(z3.Not(e2))):
                    problems.append(("layers-encode", "byte-level encoding is not the serialisation of to_cbor_value"
                                     + (" wrapped in the registered tag" if use_tag else "")))
        return problems

    def on_leaf(ctx, out):
        if out[0] == "panic":
            cls, what = "panic:" + out[1].kind, "panics: %s" % out[1]
        elif out[0] == "ok":
            job.accepting += 1
            if not out[1]:
                return
            cls, what = out[1][0]
        else:
            return
        key = "%s:%s:%s" % (prop, tname, cls)
        seen[key] = seen.get(key, 0) + 1
        if seen[key] > 2:
            return
        m = ctx.model()
        node = ctx.side.get("node")
        if m is None:
            return
        if node is None:
            # a panic inside the decoder: the parse of the input was decided by the parser stub
            oc = ctx.side.get("parsed", {}).get(ctx.side.get("input_ident"))
            if oc is not None and oc[0] == "ok":
                node = oc[1]
                ctx.side.setdefault("exact", oc[2])
        hexin = ""
        variants = [b""]
        if node is not None:
            data = concrete.encode(concrete.node_to_tree(m, node, {}))
            if not ctx.side.get("exact", True):
                # trailing bytes the parser did not consume: a complete item, a truncated item, a break
                variants = [b"\x00", b"\x18", b"\x41", b"\xff"]
            hexin = data.hex()
        cmds = ["ops api %s %s %s" % (tname, ctx.side.get("mode", "plain"), (hexin + v.hex()) or "-") for v in variants]
        if via_bstr:
            cmds = ["ops api ProtectedHeader bstr %s" % (hexin or "-")]
        job.findings.append({"property": prop, "key": key, "what": "%s: %s" % (tname, what), "op": "ops",
                             "type": tname, "input_hex": hexin, "command": cmds[0], "commands": cmds,
                             "predicted": "PANIC" if cls.startswith("panic") else "MISMATCH", "compare": "startswith"})

    hcommon.run_paths(eng, job, harness, deadline, max_paths, on_leaf, initial=initial, bfs=bfs, slice_s=slice_s)
    job.extra["finding_counts"] = seen
    return job


# ------------------------------------------------------------------------------- reference orders

def _int_key(x):
    """(major type bit, argument) of the deterministic encoding of i64 term x; encodings of two
    integers compare bytewise exactly as these pairs (the additional-info class is monotone in n)."""
    neg = x < 0
    n = z3.If(neg, ~x, x)
    return z3.If(neg, z3.BitVecVal(1, 8), z3.BitVecVal(0, 8)), n


def _int_len(n):
    return z3.If(z3.ULT(n, 24), 1, z3.If(z3.ULT(n, 0x100), 2, z3.If(z3.ULT(n, 0x10000), 3,
                                                                     z3.If(z3.ULT(n, 0x100000000), 5, 9))))


def ref_label_order(a, b, length_first):
    """z3 Int term in {-1, 0, 1}: order of the deterministic encodings of two labels (Label::Int with
    symbolic i64 / Label::Text with concrete-length symbolic bytes, shorter than 24)."""
    ia, ib = a.variant == "Int", b.variant == "Int"

    def bytes_order(xs, ys):
        res = z3.IntVal(-1 if len(xs) < len(ys) else (1 if len(xs) > len(ys) else 0))
        for i in reversed(range(min(len(xs), len(ys)))):
            x, y = bv(xs[i]), bv(ys[i])
            res = z3.If(z3.ULT(x, y), -1, z3.If(z3.UGT(x, y), 1, res))
        return res
    if ia and ib:
        ma, na = _int_key(bv(a.fields[0]))
        mb, nb = _int_key(bv(b.fields[0]))
        lex = z3.If(z3.ULT(ma, mb), -1, z3.If(z3.UGT(ma, mb), 1, z3.If(z3.ULT(na, nb), -1, z3.If(z3.UGT(na, nb), 1, 0))))
        if not length_first:
            return lex
        la, lb = _int_len(na), _int_len(nb)
        return z3.If(la < lb, -1, z3.If(la > lb, 1, lex))
    if not ia and not ib:
        xs, ys = a.fields[0].elems, b.fields[0].elems
        if len(xs) != len(ys):
            return z3.IntVal(-1 if len(xs) < len(ys) else 1)
        return bytes_order(xs, ys)
    # int vs text: first bytes 0x00..0x3b vs 0x60+len
    if ia:
        if not length_first:
            return z3.IntVal(-1)
        _, na = _int_key(bv(a.fields[0]))
        la, lb = _int_len(na), 1 + len(b.fields[0].elems)
        return z3.If(la < lb, -1, z3.If(la > lb, 1, -1))
    r = ref_label_order(b, a, length_first)
    return -r


def ordering_int(o):
    """interpreter Ordering scalar -> z3 Int"""
    if not is_sym(o.v):
        return z3.IntVal(int(o.v))
    return z3.BV2Int(o.v, is_signed=True)


def label_spec(model, lab):
    if lab.variant == "Text":
        return "t" + concrete.seq_to_bytes(model, lab.fields[0]).hex()
    x = lab.fields[0]
    return "i%d" % concrete.signed(concrete._ev(model, x.v) if is_sym(x.v) else int(x.v), 64)


def order_job(eng, tables, prop, deadline, text_max=2, max_paths=None, initial=None, bfs=False, slice_s=None):
    """Label::cmp_canonical and Label::cmp against the reference orders, all pairs of labels
    (any i64, ASCII text of length <= text_max)."""
    import jobs_encode
    job = JobResult("order:labels")
    seen = {}

    def harness(ctx):
        ctx.side["label_bytes"] = True
        a = jobs_encode.gen_label(ctx, "a", text_max)
        b = jobs_encode.gen_label(ctx, "b", text_max)
        ctx.side["labels"] = (a, b)
        problems = []
        for name, lf in (("cmp_canonical", True), ("cmp", False)):
            fn = "common::Label::cmp_canonical" if lf else "<common::Label as Ord>::cmp"
            o = ctx.call(fn, [Ref(Cell(deep_clone(a))), Ref(Cell(deep_clone(b)))])
            want = ref_label_order(a, b, lf)
            bad = ordering_int(o) != want
            if ctx.check(bad):
                ctx.assume(bad)
                ctx.side["which"] = name
                ctx.side["got"] = o
                problems.append((name, "%s disagrees with the order of the deterministic encodings" % name))
                break
        return problems

    def on_leaf(ctx, out):
        if out[0] == "panic":
            cls, what = "panic:" + out[1].kind, "panics: %s" % out[1]
        elif out[0] == "ok":
            job.accepting += 1
            if not out[1]:
                return
            cls, what = out[1][0]
        else:
            return
        key = "%s:Label:%s" % (prop, cls)
        seen[key] = seen.get(key, 0) + 1
        if seen[key] > 2:
            return
        m = ctx.model()
        if m is None:
            return
        a, b = ctx.side["labels"]
        got = ctx.side.get("got")
        pred = "PANIC"
        if got is not None:
            g = concrete._ev(m, got.v) if is_sym(got.v) else int(got.v)
            g = concrete.signed(g, 8)
            pred = {-1: "Less", 0: "Equal", 1: "Greater"}[g]
        job.findings.append({"property": prop, "key": key, "what": what, "op": "ops", "type": "Label",
                             "input_hex": "", "predicted": pred,
                             "command": "ops %s %s,%s" % ("cmp_canonical" if ctx.side.get("which") == "cmp_canonical" else "cmp",
                                                          label_spec(m, a), label_spec(m, b))})

    hcommon.run_paths(eng, job, harness, deadline, max_paths, on_leaf, initial=initial, bfs=bfs, slice_s=slice_s)
    job.extra["finding_counts"] = seen
    return job


def canonicalize_job(eng, tables, prop, n_params, deadline, max_paths=None, initial=None, bfs=False, slice_s=None,
                     long_text=None):
    """CoseKey::canonicalize with either ordering: encoded keys strictly ascending, label-value pairs
    unchanged, idempotent, and the canonicalised key re-encodes to the same map after a decode."""
    import jobs_encode
    job = JobResult("canonicalize:%d%s" % (n_params, ":long-text" if long_text else ""))
    seen = {}
    I = eng.impls

    def harness(ctx):
        ctx.side["label_bytes"] = True
        if long_text:
            # n_params text labels whose lengths are picked from `long_text` (ASCII content): the
            # comparison of long labels that share a prefix
            key = jobs_encode.gen_key(ctx, eng, tables, 0)
            elems = []
            for i in range(n_params):
                ln = long_text[ctx.choose(len(long_text), "long-len@%d" % i)]
                bs = [Sc("u8", ctx.fresh_bv("k.p%d.text[%d]" % (i, j), 8)) for j in range(ln)]
                for b in bs:
                    ctx.assume(z3.ULT(b.v, 0x80))
                elems.append(Tup([Adt("Label", "Text", [VecV(bs, None, "string")]), Adt("Value", "Null", [])]))
            key.fields[I.struct_fields("CoseKey").index("params")] = VecV(elems, None, "vec")
        else:
            key = jobs_encode.gen_key(ctx, eng, tables, n_params, text_max=2)
        params = f_(I, key, "params")
        # distinct values so that pairs can be tracked; distinct labels (a well-formed key)
        for i, t in enumerate(params.elems):
            t.fields[1] = Adt("Value", "Integer", [Adt("Integer", None, [Sc("i128", 1000 + i)])])
        # extra parameters never use the labels of the typed fields (the builder refuses them and
        # decoding files them under the typed fields); label 0 is not a typed field
        for t in params.elems:
            if t.fields[0].variant == "Int":
                x = bv(t.fields[0].fields[0])
                ctx.assume(z3.Or(x < 1, x > 5))
        ref = refenc.RefEnc(ctx, I)
        try:
            ref.key(deep_clone(key))          # raises on duplicate labels (not a well-formed key)
        except refenc.EncodeFault:
            return "skip"
        lf = ctx.choose(2, "ordering") == 1
        ordv = Sc("isize", I.variant_discr("CborOrdering", "LengthFirstLexicographic" if lf else "Lexicographic"),
                  enum="CborOrdering")
        ctx.side["gen"] = deep_clone(key)
        ctx.side["lf"] = lf
        cell = Cell(key)
        ctx.call("CoseKey::canonicalize", [Ref(cell), ordv])
        after = deep_clone(cell.v)
        # pairs unchanged (as a multiset) and typed fields untouched
        before_pairs = [(t.fields[0], t.fields[1]) for t in f_(I, ctx.side["gen"], "params").elems]
        after_pairs = [(t.fields[0], t.fields[1]) for t in f_(I, after, "params").elems]
        problems = []
        if len(before_pairs) != len(after_pairs):
            return [("pairs", "canonicalize changed the number of parameters")]
        for (l, v) in before_pairs:
            alts = []
            for (l2, v2) in after_pairs:
                c = refenc._and([hcommon.spec_eq(ctx, l, l2), hcommon.spec_eq(ctx, v, v2)])
                if c is True:
                    alts = [True]
                    break
                if c is not False:
                    alts.append(c)
            if not alts:
                return [("pairs", "canonicalize lost or altered a label-value pair")]
            if alts != [True] and ctx.check(z3.Not(z3.Or(alts))):
                return [("pairs", "canonicalize lost or altered a label-value pair")]
        strip = lambda k: [x for n, x in zip(I.struct_fields("CoseKey"), k.fields) if n != "params"]
        eqt = refenc._and([hcommon.spec_eq(ctx, x, y) for x, y in zip(strip(ctx.side["gen"]), strip(after))])
        if eqt is not True and (eqt is False or ctx.check(z3.Not(eqt))):
            return [("pairs", "canonicalize changed a typed field")]
        # encoded keys strictly ascending under the reference order
        r = ctx.call("<key::CoseKey as AsCborValue>::to_cbor_value", [deep_clone(after)])
        if r.variant != "Ok":
            return [("encode", "a canonicalised well-formed key does not encode")]
        entries = r.fields[0].fields[0].elems
        keys = []
        for t in entries:
            kv = refenc.deref(t.fields[0])
            if kv.variant == "Integer":
                x = kv.fields[0].fields[0]
                term = z3.Extract(63, 0, x.v) if is_sym(x.v) else z3.BitVecVal(int(x.v), 64)
                keys.append(Adt("Label", "Int", [Sc("i64", z3.simplify(term))]))
            else:
                keys.append(Adt("Label", "Text", [kv.fields[0]]))
        for i in range(len(keys) - 1):
            bad = ref_label_order(keys[i], keys[i + 1], lf) >= 0
            if ctx.check(bad):
                ctx.assume(bad)
                # which kind of pair is out of order?  (typed field followed by an extra label 0 is
                # the case the source comment concedes)
                second = keys[i + 1]
                cls = "not-ascending"
                if second.variant == "Int" and not ctx.check(bv(second.fields[0]) != 0):
                    cls = "not-ascending:label0"
                return [(cls, "after canonicalize the encoded map keys are not strictly ascending")]
        # idempotent
        cell2 = Cell(deep_clone(after))
        ctx.call("CoseKey::canonicalize", [Ref(cell2), ordv])
        e = hcommon.spec_eq(ctx, cell2.v, after)
        if e is not True and (e is False or ctx.check(z3.Not(e))):
            return [("idempotent", "a second canonicalize changes the key")]
        return problems

    def on_leaf(ctx, out):
        if out[0] == "panic":
            cls, what = "panic:" + out[1].kind, "panics: %s" % out[1]
        elif out[0] == "ok":
            if out[1] == "skip":
                job.rejecting += 1
                return
            job.accepting += 1
            if not out[1]:
                return
            cls, what = out[1][0]
        else:
            return
        key = "%s:CoseKey:%s" % (prop, cls)
        seen[key] = seen.get(key, 0) + 1
        if seen[key] > 2:
            return
        m = ctx.model()
        if m is None or "gen" not in ctx.side:
            return
        reg = {}
        spec = jobs_encode.literal_spec(m, "CoseKey", ctx.side["gen"], I, reg)
        flags, labels = spec.split(" ")
        canon = "canon=" + ("len" if ctx.side.get("lf") else "lex")
        flags = canon if flags == "-" else flags + "," + canon
        job.findings.append({"property": prop, "key": key, "what": "CoseKey: " + what, "op": "ops", "type": "CoseKey",
                             "input_hex": "", "predicted": "PANIC" if cls.startswith("panic") else "UNSORTED",
                             "compare": "startswith",
                             "command": "ops canonical_check %s %s" % (flags, labels)})

    hcommon.run_paths(eng, job, harness, deadline, max_paths, on_leaf, initial=initial, bfs=bfs, slice_s=slice_s)
    job.extra["finding_counts"] = seen
    return job


# ------------------------------------------------------------------------------- C01 nesting depth

def preset(node, kind, **kw):
    node.kind = kind
    for k, v in kw.items():
        setattr(node, k, v)
    return node


def nested_input(ctx, levels, policy):
    """COSE_Sign1 whose protected header holds a counter-signature whose protected header holds a
    counter-signature ... `levels` deep; everything not on that spine is left lazy."""
    root = InputNode("v", policy)
    ctx.inputs["v"] = root

    def bytes_node(n, name):
        preset(n, "Bytes", bytes=ctx.fresh_opaque(name, "vec", nonempty=True))
        ctx.side.setdefault("bytes_nodes", {})[n.bytes.opaque.ident] = n
        return n

    def header_with_countersig(n, depth):
        """n: node for a parsed protected header: {7: [bstr(prot), {}, bstr]}"""
        k = InputNode(n.path + "{0}k", policy)
        preset(k, "Integer", int=z3.BitVecVal(7, 128))
        v = InputNode(n.path + "{0}v", policy)
        sig_items = [InputNode("%s{0}v[%d]" % (n.path, i), policy) for i in range(3)]
        preset(v, "Array", items=sig_items)
        preset(sig_items[1], "Map", entries=[])
        bytes_node(sig_items[2], "sig%d" % depth)
        prot = bytes_node(sig_items[0], "prot%d" % depth)
        preset(n, "Map", entries=[(k, v)])
        return prot

    items = [InputNode("v[%d]" % i, policy) for i in range(4)]
    preset(root, "Array", items=items)
    preset(items[1], "Map", entries=[])
    preset(items[2], "Null")
    bytes_node(items[3], "signature")
    prot = bytes_node(items[0], "prot-top")
    for d in range(levels):
        parsed = InputNode(prot.path + ".parsed", policy)
        prot.parsed = parsed
        outcome = ("ok", parsed, True)
        prot.parse_outcome = outcome
        ctx.side.setdefault("parsed", {})[prot.bytes.opaque.ident] = outcome
        prot = header_with_countersig(parsed, d)
    # innermost protected header: empty map
    parsed = InputNode(prot.path + ".parsed", policy)
    preset(parsed, "Map", entries=[])
    prot.parsed = parsed
    prot.parse_outcome = ("ok", parsed, True)
    ctx.side.setdefault("parsed", {})[prot.bytes.opaque.ident] = prot.parse_outcome
    return root


def depth_job(eng, tables, prop, levels, native_levels, deadline, max_paths=None, initial=None, bfs=False, slice_s=None):
    """Is the re-entrant parse depth (live activations of the byte-level parser entry) bounded by a
    constant, or only by the input length?  The spine counter-signature -> protected header ->
    counter-signature ... is explored symbolically for growing numbers of levels; if every level is
    feasible and accepted, the same spine with `native_levels` levels is handed to the native
    replayer, which decodes it on a 2 MiB thread in a child process."""
    job = JobResult("depth:CoseSign1")
    seen = {}
    results = []
    policy = Policy(max_array=3, max_map=1, max_depth=10 ** 6)

    for n in levels:
        def harness(ctx, n=n):
            root = nested_input(ctx, n, policy)
            r = ctx.call("<sign::CoseSign1 as AsCborValue>::from_cbor_value", [Lazy(root)])
            return r
        eng_depth = eng.max_call_depth
        eng.max_call_depth = 100000
        import sys
        old = sys.getrecursionlimit()
        sys.setrecursionlimit(max(old, 200000))
        try:
            for ctx, out in eng.explore(harness, max_paths=4, deadline=deadline):
                if ctx is None:
                    break
                job.paths += 1
                if out[0] == "ok":
                    live = ctx.side.get("max_live_parse", 0)
                    results.append((n, out[1].variant, live, ctx.max_depth))
                    if out[1].variant == "Ok":
                        job.accepting += 1
                    else:
                        job.rejecting += 1
                elif out[0] == "depth":
                    results.append((n, "interpreter-depth", None, ctx.max_depth))
        except RecursionError:
            results.append((n, "python-recursion", None, None))
        finally:
            eng.max_call_depth = eng_depth
            sys.setrecursionlimit(old)
    job.extra["levels"] = results
    accepted = [r for r in results if r[1] == "Ok"]
    # bounded iff some level is rejected (a budget kicks in); unbounded iff every explored level is
    # accepted with the number of live parser activations growing with the level
    if accepted and len(accepted) == len(results) and accepted[-1][3] is not None and \
            accepted[-1][3] > accepted[0][3]:
        job.findings.append({
            "property": prop, "key": "%s:nesting:protected-header-countersignature-cycle" % prop,
            "what": "decoding recurses once per nesting level (counter-signature -> protected header, parsed "
                    "with a fresh budget -> counter-signature ...): call depth %s at %s levels, every explored "
                    "level accepted, no budget in the path condition -- depth is bounded only by the input length"
                    % (accepted[-1][3], accepted[-1][0]),
            "op": "ops", "type": "CoseSign1", "input_hex": "",
            "command": "ops nested_sign1 %d" % native_levels, "predicted": "CRASH", "compare": "startswith"})
    job.samples.append({"levels": results})
    job.extra["finding_counts"] = {f["key"]: 1 for f in job.findings}
    return job


def spine_input(ctx, levels, policy, via, form, root_ty="CoseSign1"):
    """COSE_Sign1 with `levels` nested counter-signatures.  via='protected': each level sits in the
    protected header (bstr) of the previous one; via='unprotected': in its unprotected header.
    form='bare': label 7 holds one COSE_Signature; form='list': a one-element array of them."""
    root = InputNode("v", policy)
    ctx.inputs["v"] = root

    def bytes_node(n, name, nonempty=True):
        preset(n, "Bytes", bytes=ctx.fresh_opaque(name, "vec", nonempty=nonempty))
        ctx.side.setdefault("bytes_nodes", {})[n.bytes.opaque.ident] = n
        return n

    def parsed_of(b, node):
        b.parsed = node
        b.parse_outcome = ("ok", node, True)
        ctx.side.setdefault("parsed", {})[b.bytes.opaque.ident] = b.parse_outcome

    def empty_bstr(n, name):
        preset(n, "Bytes", bytes=VecV([], None, "vec"))
        return n

    def sig_nodes(path):
        items = [InputNode("%s[%d]" % (path, i), policy) for i in range(3)]
        return items

    def put_countersig(hdr, depth):
        """hdr: an (undecided) header-map node; gives it {7: sig or [sig]} and returns the signature's
        (protected bstr node, unprotected map node)"""
        k = InputNode(hdr.path + "{0}k", policy, role="key")
        preset(k, "Integer", int=z3.BitVecVal(7, 128))
        v = InputNode(hdr.path + "{0}v", policy, role="value")
        if form == "bare":
            items = sig_nodes(v.path)
            preset(v, "Array", items=items)
        else:
            inner = InputNode(v.path + "[0]", policy)
            items = sig_nodes(inner.path)
            preset(inner, "Array", items=items)
            preset(v, "Array", items=[inner])
        bytes_node(items[2], "sig%d" % depth)
        preset(hdr, "Map", entries=[(k, v)])
        return items[0], items[1]

    if root_ty == "CoseSign1":
        top = [InputNode("v[%d]" % i, policy) for i in range(4)]
        preset(root, "Array", items=top)
        preset(top[2], "Null")
        bytes_node(top[3], "signature")
        prot, unprot = top[0], top[1]
    elif root_ty == "CoseSignature":
        top = [InputNode("v[%d]" % i, policy) for i in range(3)]
        preset(root, "Array", items=top)
        bytes_node(top[2], "signature")
        prot, unprot = top[0], top[1]
    else:                       # CoseSign: the spine hangs off its only signer
        top = [InputNode("v[%d]" % i, policy) for i in range(4)]
        preset(root, "Array", items=top)
        empty_bstr(top[0], "body-prot")
        preset(top[1], "Map", entries=[])
        preset(top[2], "Null")
        signer = [InputNode("v[3][0][%d]" % i, policy) for i in range(3)]
        s0 = InputNode("v[3][0]", policy)
        preset(s0, "Array", items=signer)
        preset(top[3], "Array", items=[s0])
        bytes_node(signer[2], "signature")
        prot, unprot = signer[0], signer[1]
    for d in range(levels):
        if via == "protected":
            bytes_node(prot, "prot%d" % d)
            hdr = InputNode(prot.path + ".parsed", policy)
            parsed_of(prot, hdr)
            preset(unprot, "Map", entries=[])
        else:
            empty_bstr(prot, "prot%d" % d)
            hdr = unprot
        prot, unprot = put_countersig(hdr, d)
    empty_bstr(prot, "prot-last")
    preset(unprot, "Map", entries=[])
    return root


SPINE_ROOTS = {"CoseSign1": ("sign::CoseSign1", "sign1"), "CoseSignature": ("sign::CoseSignature", "signature"),
               "CoseSign": ("sign::CoseSign", "sign")}


def spine_job(eng, tables, prop, max_level, deadline, max_paths=None, initial=None, bfs=False, slice_s=None,
              root_ty="CoseSign1"):
    """Nesting spines of counter-signatures, level by level, through protected and unprotected
    headers, in the bare and in the list form: a spine is accepted exactly up to the documented
    nesting limit (the crate's MAX_COUNTER_SIGNATURE_DEPTH), an accepted spine decodes to the
    reference value, encodes, and its encoding decodes to an equal value again."""
    import sys
    from jobs_encode import strip_original
    job = JobResult("spine:%s" % root_ty)
    rpath, rmethod = SPINE_ROOTS[root_ty]
    seen = {}
    policy = Policy(max_array=3, max_map=1, max_depth=10 ** 6)
    limit = None
    for name, c in eng.prog.consts.items():
        if name.split("::")[-1] == "MAX_COUNTER_SIGNATURE_DEPTH" and isinstance(c, tuple):
            limit = int(c[1].split("_")[0])
    job.extra["documented_limit"] = limit
    old = sys.getrecursionlimit()
    sys.setrecursionlimit(max(old, 100000))
    try:
        for via in ("protected", "unprotected"):
            for form in ("bare", "list"):
                for n in range(1, max_level + 1):
                    def harness(ctx, n=n, via=via, form=form):
                        root = spine_input(ctx, n, policy, via, form, root_ty)
                        if prop == "C11":
                            # encode direction: the in-memory value this spine denotes (built by the
                            # reference decoder, not by coset) encodes, and the output decodes back
                            if limit is not None and n > limit:
                                return []
                            ref = refdec.RefDec(ctx, eng.impls, tables, strict=True)
                            val = getattr(ref, rmethod)(root)
                            if ref.faults or val is None:
                                return []
                            ctx.side["spine_accepted"] = True
                            keep = deep_clone(val)
                            r1 = ctx.call("<%s as AsCborValue>::to_cbor_value" % rpath, [val])
                            if r1.variant != "Ok":
                                return [("C11", "roundtrip", "spine-roundtrip", "a value with a %d-level counter-signature spine does not encode" % n)]
                            r2 = ctx.call("<%s as AsCborValue>::from_cbor_value" % rpath, [deep_clone(r1.fields[0])])
                            if r2.variant != "Ok":
                                return [("C11", "roundtrip", "spine-roundtrip", "the encoding of a value with a %d-level spine (%s headers, %s form) "
                                         "is rejected (%s)" % (n, via, form, r2.fields[0].variant))]
                            eq = hcommon.spec_eq(ctx, r2.fields[0], keep)
                            if eq is not True and (eq is False or ctx.check(z3.Not(eq))):
                                return [("C11", "roundtrip", "spine-roundtrip", "decode(encode(v)) != v on a nesting spine")]
                            return []
                        r = ctx.call("<%s as AsCborValue>::from_cbor_value" % rpath, [Lazy(root)])
                        problems = []
                        want_ok = limit is None or n <= limit
                        if (r.variant == "Ok") != want_ok:
                            problems.append(("C01" if r.variant == "Ok" else "C09", "limit", "nesting-limit",
                                             "a spine of %d counter-signature levels (%s headers, %s form) is %s but "
                                             "the documented nesting limit is %s" % (n, via, form, "accepted" if r.variant == "Ok" else "rejected", limit)))
                        ctx.side["spine_accepted"] = r.variant == "Ok"
                        if r.variant != "Ok":
                            return problems
                        d = hcommon.compare_with_reference(ctx, eng, tables, rmethod, root, r, strict_first=True)
                        if d is not None:
                            problems.append(("C09", "limit", "spine-" + d["class"], d["what"]))
                            return problems
                        x = r.fields[0]
                        keep = deep_clone(x)
                        r1 = ctx.call("<%s as AsCborValue>::to_cbor_value" % rpath, [x])
                        if r1.variant != "Ok":
                            problems.append(("C07", "roundtrip", "spine-roundtrip", "an accepted spine does not encode"))
                            return problems
                        r2 = ctx.call("<%s as AsCborValue>::from_cbor_value" % rpath, [deep_clone(r1.fields[0])])
                        if r2.variant != "Ok":
                            e = r2.fields[0]
                            problems.append(("C07", "roundtrip", "spine-roundtrip", "the encoding of an accepted %d-level spine (%s headers, %s form) is rejected (%s)"
                                             % (n, via, form, e.variant)))
                            return problems
                        eq = hcommon.spec_eq(ctx, r2.fields[0], keep)
                        if eq is not True and (eq is False or ctx.check(z3.Not(eq))):
                            problems.append(("C07", "roundtrip", "spine-roundtrip", "decode(encode(v)) != v on a nesting spine"))
                        return problems
                    for ctx, out in eng.explore(harness, max_paths=4, deadline=deadline):
                        if ctx is None:
                            job.incomplete.append("spine exploration stopped: %r" % (out,))
                            break
                        job.paths += 1
                        if out[0] == "panic":
                            mode, cls, what = "limit", "panic:" + out[1].kind, "panics on a nesting spine: %s" % out[1]
                        elif out[0] == "ok":
                            if ctx.side.get("spine_accepted"):
                                job.accepting += 1
                            else:
                                job.rejecting += 1
                            mine = [q for q in out[1] if q[0] == prop]
                            if not mine:
                                continue
                            _, mode, cls, what = mine[0]
                        else:
                            continue
                        key = "%s:%s:%s" % (prop, root_ty, cls)
                        seen[key] = seen.get(key, 0) + 1
                        if seen[key] > 2:
                            continue
                        m = ctx.model()
                        if m is None:
                            continue
                        reg = {}
                        tree = concrete.node_to_tree(m, ctx.inputs["v"], reg)
                        hx = concrete.encode(tree).hex()
                        job.findings.append({"property": prop, "key": key, "what": root_ty + ": " + what, "op": "roundtrip",
                                             "type": root_ty, "input_hex": hx,
                                             "commands": ["ops spine %s:%s %s %s" % (mode, root_ty, hx, limit if limit is not None else -1)],
                                             "command": "ops spine %s:%s %s %s" % (mode, root_ty, hx, limit if limit is not None else -1),
                                             "predicted": "MISMATCH", "compare": "startswith"})
    finally:
        sys.setrecursionlimit(old)
    job.extra["finding_counts"] = seen
    return job


# ------------------------------------------------------------------------------- raw tag heads (C13 / C14)

HEAD_WIDTHS = (1, 2, 3, 5, 9, 17, 33)
_INFO_OF_WIDTH = {2: 24, 3: 25, 5: 26, 9: 27}


def classify_head(ctx, head):
    """The first bytes of an input, read as CBOR (RFC 8949 section 3): 'tag' if they are exactly one
    well-formed tag head (-> 64-bit tag number), 'invalid' if the first byte can start no item
    (reserved additional information 28..30, or 31 with a major type that has no indefinite form);
    every other byte pattern is outside this job's input family (the path is dropped)."""
    from interp import Infeasible
    b0 = bv(head[0])
    major, info = z3.LShR(b0, 5), b0 & 0x1f
    j = len(head)
    if j == 1:
        a = z3.And(major == 6, z3.ULT(info, 24))
    elif j in _INFO_OF_WIDTH:
        a = z3.And(major == 6, info == _INFO_OF_WIDTH[j])
    else:
        a = z3.BoolVal(False)
    b = z3.Or(z3.And(z3.UGE(info, 28), z3.ULE(info, 30)),
              z3.And(info == 31, z3.Or(major == 0, major == 1, major == 6)))
    k = ctx.choose_cond([a, b, z3.Not(z3.Or(a, b))], "head-class")
    if k == 2:
        raise Infeasible("input family")
    if k == 1:
        return "invalid", None
    if j == 1:
        return "tag", z3.ZeroExt(56, info)
    t = bv(head[1])
    for x in head[2:]:
        t = z3.Concat(t, bv(x))
    return "tag", z3.simplify(z3.ZeroExt(64 - t.size(), t) if t.size() < 64 else t)


def head_parse(eng, ctx, seq, rd):
    """Parser stub for `modelled bytes ++ opaque body` (see classify_head): a well-formed tag head
    followed by the body parses to Tag(number, parse(body)); an impossible first byte is a syntax
    error; with no modelled bytes left it is the ordinary stub on the body."""
    j = 0
    while j < len(seq.elems) and not isinstance(seq.elems[j], Opaque):
        j += 1
    if len(seq.elems) != j + 1:
        raise Unsupported("raw input with more than one opaque segment")
    tail = VecV(None, seq.elems[j], "vec")
    if j == 0:
        cell = Cell(Ref(Cell(tail)))
        r = models.stub_from_reader(eng, ctx, [Ref(cell)])
        rd.set(cell.v)
        return r
    cls, t = classify_head(ctx, seq.elems[:j])
    if cls == "invalid":
        return Adt("Result", "Err", [Adt("de::Error", "Syntax", [Sc("usize", 0)])])
    cell = Cell(Ref(Cell(tail)))
    r = models.stub_from_reader(eng, ctx, [Ref(cell)])
    rd.set(cell.v)
    if r.variant != "Ok":
        return r
    cache = ctx.side.setdefault("head_nodes", {})
    key = (j, tail.opaque.ident)
    if key not in cache:
        node = InputNode("tagged(%s)" % (tail.opaque.ident,), eng.policy)
        child = r.fields[0].node
        preset(node, "Tag", tag=t, child=child)
        cache[key] = node
    return Adt("Result", "Ok", [Lazy(cache[key])])


def head_job(eng, tables, prop, tname, policy, deadline, max_paths=None, initial=None, bfs=False, slice_s=None):
    """Byte-level entry points on raw inputs whose first 1..33 bytes are symbolic and whose remainder
    is an opaque body: every tag-head encoding (all widths, all 64-bit numbers, non-minimal forms)
    and every impossible first byte.  from_tagged_slice accepts iff the head is one well-formed tag
    head carrying the registered number and the body is a complete item the untagged decoder
    accepts (same value); from_slice never accepts such an input."""
    from interp import Infeasible, OpaqueRead
    if isinstance(policy, dict):
        policy = Policy(**policy)
    path = PATHS[tname]
    job = JobResult("head:%s" % tname)
    seen = {}
    TAG = REGISTERED_TAG[tname]

    def harness(ctx):
        eng.policy = policy
        use_tag = ctx.choose(2, "tagged") == 1
        k = HEAD_WIDTHS[ctx.choose(len(HEAD_WIDTHS), "head-width")]
        head = [Sc("u8", ctx.fresh_bv("head[%d]" % i, 8)) for i in range(k)]
        tail = ctx.fresh_opaque("body", "vec", nonempty=True)
        data = VecV(head + [tail.opaque], None, "vec")
        ctx.side.update(head_parse=head_parse, head=head, tail=tail, mode="tagged" if use_tag else "plain",
                        concrete_writes=True)
        entry = "<%s as TaggedCborSerializable>::from_tagged_slice" if use_tag else "<%s as CborSerializable>::from_slice"
        try:
            r = ctx.call(entry % path, [slice_ref(data)])
        except OpaqueRead:
            job.extra["dropped_opaque_reads"] = job.extra.get("dropped_opaque_reads", 0) + 1
            raise Infeasible("reads body content")
        cls, t = classify_head(ctx, head)
        if cls == "invalid":
            if not (r.variant == "Err" and r.fields[0].variant == "DecodeFailed"):
                return [("head-invalid", "an input whose first byte can start no CBOR item is not rejected with DecodeFailed")]
            return []
        oc = models.decide_parse(ctx, tail)
        if oc[0] == "err":
            if not (r.variant == "Err" and r.fields[0].variant == "DecodeFailed"):
                return [("head-parse-error", "tag head followed by an unparsable body not reported as DecodeFailed")]
            return []
        node, exact = oc[1], oc[2]
        ctx.side["exact"] = exact
        if not exact:
            if not (r.variant == "Err" and r.fields[0].variant == "ExtraneousData"):
                return [("head-extraneous", "tag head, body and trailing bytes not rejected with ExtraneousData")]
            return []
        if not use_tag:
            if r.variant != "Err":
                return [("head-untagged", "untagged decoding accepted a tagged item")]
            return []
        if not ctx.branch(t == z3.BitVecVal(TAG, 64), "registered-tag"):
            if r.variant != "Err":
                return [("head-tag", "tag number other than the registered one accepted")]
            return []
        r2 = ctx.call("<%s as AsCborValue>::from_cbor_value" % path, [Lazy(node)])
        eq = result_eq(ctx, r, r2)
        if eq is not True and (eq is False or ctx.check(z3.Not(eq))):
            if eq is not False:
                ctx.assume(z3.Not(eq))
            return [("head-layers", "tagged byte-level decoding disagrees with parse-then-convert")]
        return []

    def on_leaf(ctx, out):
        if out[0] == "panic":
            cls, what = "panic:" + out[1].kind, "panics: %s" % out[1]
        elif out[0] == "ok":
            if ctx.side.get("exact") and not out[1]:
                job.accepting += 1
            else:
                job.rejecting += 1
            if not out[1]:
                return
            cls, what = out[1][0]
        else:
            return
        key = "%s:%s:%s" % (prop, tname, cls)
        seen[key] = seen.get(key, 0) + 1
        if seen[key] > 2:
            return
        m = ctx.model()
        if m is None or "head" not in ctx.side:
            return
        hb = bytes(concrete._ev(m, bv(x)) & 0xff for x in ctx.side["head"])
        oc = ctx.side.get("parsed", {}).get(ctx.side["tail"].opaque.ident)
        if oc is not None and oc[0] == "ok":
            body = concrete.encode(concrete.node_to_tree(m, oc[1], {}))
            tails = [body] if oc[2] else [body + v for v in (b"\x00", b"\x18", b"\x41", b"\xff")]
        elif oc is not None:
            tails = [b"\xff", b"\x1c", b"\x5f"]                       # bodies that do not parse
        else:
            # the body was never looked at: a body every structure decoder of this type accepts, and junk
            tails = [bytes.fromhex("8440a0f640"), bytes.fromhex("8340a040"), bytes.fromhex("8540a0f64080"), b"\xf6", b"\xff"]
        cmds = ["ops api %s %s %s" % (tname, ctx.side.get("mode", "plain"), (hb + t_).hex()) for t_ in tails]
        job.findings.append({"property": prop, "key": key, "what": "%s: %s" % (tname, what), "op": "ops", "type": tname,
                             "input_hex": (hb + tails[0]).hex(), "command": cmds[0], "commands": cmds,
                             "predicted": "PANIC" if cls.startswith("panic") else "MISMATCH", "compare": "startswith"})

    hcommon.run_paths(eng, job, harness, deadline, max_paths, on_leaf, initial=initial, bfs=bfs, slice_s=slice_s)
    job.extra["finding_counts"] = seen
    return job
