"""Static tables derived from /repo's current source and MIR dump: impl blocks (trait, self type,
methods), struct field orders, enum variant orders, type aliases, named constants."""
import glob
import os
import re

from mirparse import find_top, matching, split_top
from rtypes import Ty, canon_name, parse_type, subst, unify

STD_ENUMS = {
    "Option": ["None", "Some"],
    "Result": ["Ok", "Err"],
    "ControlFlow": ["Continue", "Break"],
    "Value": ["Integer", "Bytes", "Float", "Text", "Bool", "Null", "Tag", "Array", "Map"],
    "de::Error": ["Io", "Syntax", "Semantic", "RecursionLimitExceeded"],
    "ser::Error": ["Io", "Value"],
}
STD_FIELDLESS = {"Ordering": {"Less": -1, "Equal": 0, "Greater": 1}}
STD_STRUCTS = {"Range": ["start", "end"], "RangeFrom": ["start"], "RangeTo": ["end"], "RangeToInclusive": ["end"],
               "RangeFull": [], "Integer": ["0"], "TryFromIntError": ["0"], "Infallible": [], "EndOfFile": []}


def strip_comments(src):
    src = re.sub(r"//[^\n]*", "", src)
    src = re.sub(r"/\*.*?\*/", "", src, flags=re.S)
    return src


class Impl:
    def __init__(self, trait, self_ty, params, span):
        self.trait, self.self_ty, self.params, self.span = trait, self_ty, params, span
        self.methods = {}
        self.consts = {}

    def __repr__(self):
        return "<impl %s for %s>" % (self.trait, self.self_ty)


class Impls:
    def __init__(self, prog, repo):
        self.prog = prog
        self.repo = repo
        self.sources = {}
        self.aliases = {}
        self.structs = dict(STD_STRUCTS)     # name -> [field names]
        self.tuple_structs = set()
        self.enums = dict(STD_ENUMS)         # name -> [variant names] (with fields)
        self.fieldless = dict(STD_FIELDLESS)  # name -> {variant: discr}
        self.impls = []
        self.trait_defaults = {}             # (trait name, method) -> Function
        self.free = {}                       # last segment -> [Function]
        self.closures = {}                   # closure type string -> Function
        self.named_consts = {}
        self._load_sources()
        self._load_ciborium()
        self._index_program()

    # ------------------------------------------------------------------ source level facts
    def _src(self, rel):
        if rel not in self.sources:
            with open(os.path.join(self.repo, rel)) as f:
                self.sources[rel] = f.read()
        return self.sources[rel]

    def _load_sources(self):
        for path in sorted(glob.glob(os.path.join(self.repo, "src", "**", "*.rs"), recursive=True)):
            if path.endswith("tests.rs"):
                continue
            rel = os.path.relpath(path, self.repo)
            src = strip_comments(self._src(rel))
            self._scan_items(src)
        # explicit-discriminant enums (iana registries) come from the MIR dump itself
        for key, val in self.prog.discr.items():
            en, var = key.split("::")
            self.fieldless.setdefault(en, {})[var] = val

    def _scan_items(self, src):
        for m in re.finditer(r"\btype\s+(\w+)\s*=\s*([^;]+);", src):
            self.aliases[m.group(1)] = m.group(2).strip()
        for m in re.finditer(r"\bstruct\s+(\w+)\s*(<[^>{(;]*>)?\s*([{(;])", src):
            name, opener = m.group(1), m.group(3)
            if opener == ";":
                self.structs[name] = []
                continue
            e = matching(src, m.end() - 1)
            body = src[m.end():e]
            body = re.sub(r"#\[[^\]]*\]", "", body)
            parts = split_top(body)
            if opener == "{":
                self.structs[name] = [re.sub(r"^pub(\([^)]*\))?\s+", "", p.strip()).split(":")[0].strip()
                                      for p in parts]
            else:
                self.structs[name] = [str(i) for i in range(len(parts))]
                self.tuple_structs.add(name)
        for m in re.finditer(r"\benum\s+(\w+)\s*(<[^{]*>)?\s*\{", src):
            name = m.group(1)
            if name.startswith("$"):
                continue
            e = matching(src, m.end() - 1)
            body = re.sub(r"#\[[^\]]*\]", "", src[m.end():e])
            variants, has_fields, discr = [], False, {}
            for i, p in enumerate(split_top(body)):
                vm = re.match(r"\s*(\w+)\s*(.*)$", p, re.S)
                variants.append(vm.group(1))
                rest = vm.group(2).strip()
                if rest.startswith("(") or rest.startswith("{"):
                    has_fields = True
                dm = re.match(r"=\s*(-?\d+)", rest)
                discr[vm.group(1)] = int(dm.group(1)) if dm else i
            if has_fields:
                self.enums[name] = variants
            else:
                self.fieldless[name] = discr

    def _load_ciborium(self):
        """Variant order of ciborium::Value is read from the crate source that /repo builds with
        (falls back to the 0.2.2 order)."""
        ver = "0.2.2"
        try:
            lock = open(os.path.join(self.repo, "Cargo.lock")).read()
            m = re.search(r'name = "ciborium"\nversion = "([^"]+)"', lock)
            if m:
                ver = m.group(1)
        except OSError:
            pass
        for p in glob.glob(os.path.expanduser("~/.cargo/registry/src/*/ciborium-%s/src/value/mod.rs" % ver)):
            src = strip_comments(open(p).read())
            m = re.search(r"\benum\s+Value\s*\{", src)
            if m:
                e = matching(src, m.end() - 1)
                body = re.sub(r"#\[[^\]]*\]", "", src[m.end():e])
                self.enums["Value"] = [re.match(r"\s*(\w+)", x).group(1) for x in split_top(body)]
            break

    def expand_alias_text(self, text):
        """Type aliases appear in impl headers in the source (never in MIR).  An alias name may
        coincide with the last segment of the type it abbreviates (`KeyType` =
        `RegisteredLabel<iana::KeyType>`), so expansion is textual, on unqualified names only."""
        if not self.aliases:
            return text
        pat = r"(?<![:\w])(%s)\b(?!\s*<)" % "|".join(map(re.escape, self.aliases))
        return re.sub(pat, lambda m: self.aliases[m.group(1)], text)

    # ------------------------------------------------------------------ program index
    def _impl_header(self, span):
        """(trait Ty or None, self Ty or None, params) from the source text at an impl span."""
        m = re.match(r"(src/[\w/]+\.rs):(\d+):(\d+): (\d+):(\d+)", span)
        rel, l1, c1 = m.group(1), int(m.group(2)), int(m.group(3))
        lines = self._src(rel).split("\n")
        text = "\n".join([lines[l1 - 1][c1 - 1:]] + lines[l1:l1 + 6])
        if not text.startswith("impl"):
            word = re.match(r"\w+", text)
            return ("derive", word.group(0) if word else None)
        head = text[:text.index("{")]
        head = strip_comments(head).replace("\n", " ").strip()
        rest = head[4:].strip()
        params = []
        if rest.startswith("<"):
            e = matching(rest, 0)
            for p in split_top(rest[1:e]):
                params.append(p.split(":")[0].strip())
            rest = rest[e + 1:].strip()
        w = find_top(rest, " where ")
        if w >= 0:
            rest = rest[:w]
        k = find_top(rest, " for ")
        # aliases are module-scoped: in the registry module the bare names are the enums themselves
        expand = self.expand_alias_text if "iana_registry!" not in self._src(rel) else (lambda t: t)
        if k >= 0:
            trait = parse_type(rest[:k].strip())
            selfty = parse_type(expand(rest[k + 5:].strip()))
        else:
            trait, selfty = None, parse_type(expand(rest.strip()))
        return ("impl", trait, selfty, params)

    def _index_program(self):
        by_key = {}
        for f in self.prog.functions:
            name = f.name
            if f.kind == "const":
                m = re.fullmatch(r"(.*)::promoted\[\d+\]", name)
                if m:
                    self.named_consts[name] = f
                    continue
            cm = re.search(r"\{closure#\d+\}$", name)
            if cm and f.kind == "fn":
                t = f.arg_types[0]
                t = re.sub(r"^&(mut )?", "", t)
                self.closures[t] = f
                continue
            if f.impl_span is None:
                if f.kind == "const":
                    self.named_consts[name.split("::")[-1]] = f
                    self.named_consts[name] = f
                    continue
                tm = re.fullmatch(r"(?:\w+::)*(\w+)::(\w+)", name)
                if tm and tm.group(1)[:1].isupper():
                    # default method of a trait:  common::CborSerializable::from_slice
                    self.trait_defaults[(tm.group(1), tm.group(2))] = f
                else:
                    self.free.setdefault(name.split("::")[-1], []).append(f)
                continue
            method = name.split(">::", 1)[1] if ">::" in name else name.split("::")[-1]
            if "::" in method:      # nested items inside impl fns (promoteds handled above)
                continue
            hdr = self._impl_header(f.impl_span)
            if hdr[0] == "impl" and "$" in str(hdr[2]):
                # impl inside a macro definition (`impl EnumI64 for $enum_name`): the self type
                # comes from the instantiated function's signature
                trait, params = hdr[1], []
                selfty = self._self_from_signature(f, method)
            elif hdr[0] == "impl":
                _, trait, selfty, params = hdr
            else:
                trait_name = hdr[1]
                if method in ("from_i64", "to_i64"):
                    trait_name = "EnumI64"
                trait = Ty(trait_name) if trait_name else None
                params = []
                selfty = self._self_from_signature(f, method)
                # generic derives: parameters are the single-letter idents in the self type
                params = sorted(set(re.findall(r"\b([A-Z])\b", str(selfty))))
            key = (str(trait), str(selfty), f.impl_span)
            imp = by_key.get(key)
            if imp is None:
                imp = by_key[key] = Impl(trait, selfty, params, f.impl_span)
                self.impls.append(imp)
            if f.kind == "const":
                imp.consts[method] = f
            else:
                imp.methods[method] = f

    def _self_from_signature(self, f, method):
        if f.arg_types and method not in ("from_i64", "default"):
            t = parse_type(f.arg_types[0])
            while t.name in ("&", "&mut"):
                t = t.args[0]
            return t
        t = parse_type(f.ret_type)
        if t.name == "Option":
            t = t.args[0]
        return t

    # ------------------------------------------------------------------ queries
    def resolve(self, cp, self_ty, trait, generics):
        """-> (Function, env) for a callee that has a MIR body, else None."""
        m = cp.method
        if cp.kind == "free":
            cands = self.free.get(m, [])
            if len(cands) == 1:
                return cands[0], {}
            if len(cands) > 1:
                exact = [f for f in cands if f.name == cp.path or cp.path.endswith(f.name) or f.name.endswith(cp.path)]
                if len(exact) == 1:
                    return exact[0], {}
            return None
        if self_ty is None:
            return None
        for imp in self.impls:
            if m not in imp.methods:
                continue
            if cp.kind == "trait":
                if imp.trait is None or imp.trait.name != trait.name:
                    continue
            else:
                if imp.trait is not None:
                    continue
            env = unify(imp.self_ty, self_ty, imp.params, {})
            if env is None:
                continue
            if cp.kind == "trait" and imp.trait.args and trait.args:
                ok = True
                for a, b in zip(imp.trait.args, trait.args):
                    if unify(a, b, imp.params, env) is None:
                        ok = False
                        break
                if not ok:
                    continue
            env = dict(env)
            env["Self"] = self_ty
            return imp.methods[m], env
        if cp.kind == "trait":
            f = self.trait_defaults.get((trait.name, m))
            if f is not None and self.implements(trait.name, self_ty):
                return f, {"Self": self_ty}
        if cp.kind == "inherent":
            # `Trait::method` printed without qualified self (e.g. CoseSignBuilder::add_signature)
            pass
        return None

    def resolve_dynamic(self, cp, trait, args):
        """Callee whose self type is an unresolved type parameter: dispatch on the run-time value."""
        from values import Adt, Ref, Sc
        if not args or trait is None:
            return None
        v = args[0]
        while isinstance(v, Ref):
            v = v.get()
        name = v.ty if isinstance(v, Adt) else (v.enum if isinstance(v, Sc) and v.enum else None)
        if name is None:
            return None
        for imp in self.impls:
            if cp.method in imp.methods and imp.trait is not None and imp.trait.name == trait.name \
                    and imp.self_ty is not None and imp.self_ty.name == name:
                return imp.methods[cp.method], {"Self": imp.self_ty}
        return None

    def implements(self, trait_name, self_ty):
        if trait_name in ("CborSerializable", "TaggedCborSerializable"):
            return True
        return any(i.trait is not None and i.trait.name == trait_name and
                   unify(i.self_ty, self_ty, i.params, {}) is not None for i in self.impls)

    def resolve_const(self, name, self_ty, trait):
        for imp in self.impls:
            if name in imp.consts and (trait is None or (imp.trait is not None and imp.trait.name == trait.name)):
                if unify(imp.self_ty, self_ty, imp.params, {}) is not None:
                    return imp.consts[name]
        return None

    def free_const(self, name, full):
        c = self.prog.consts.get(full) or self.prog.consts.get(name)
        if c is not None:
            return c
        for k, v in self.prog.consts.items():
            if k.split("::")[-1] == name and "promoted" not in k:
                return v
        return self.named_consts.get(full) or self.named_consts.get(name)

    def closure_fn(self, tystr):
        f = self.closures.get(tystr)
        if f is None:
            raise KeyError("closure body for %s" % tystr)
        return f

    def struct_fields(self, name):
        return self.structs.get(name)

    def is_struct(self, name):
        return name in self.structs

    def is_fieldless(self, name):
        return name in self.fieldless

    def has_variant(self, enum, variant):
        return variant in self.enums.get(enum, ()) or variant in self.fieldless.get(enum, ())

    def variant_discr(self, enum, variant):
        if enum in self.fieldless:
            return self.fieldless[enum][variant]
        return self.enums[enum].index(variant)

    def variant_of_discr(self, enum, d):
        if enum in self.fieldless:
            for k, v in self.fieldless[enum].items():
                if v == d:
                    return k
            return None
        return self.enums[enum][d]

    def split_variant(self, path):
        """'core::result::Result::<A, B>::Ok' -> ('Result', 'Ok');  'Foo' -> ('Foo', None)."""
        p = re.sub(r"::<.*>(?=::|$)", "", path) if "<" in path else path
        # remove generic args that are attached without '::'
        while "<" in p:
            i = p.index("<")
            p = p[:i] + p[matching(p, i) + 1:]
        segs = [s for s in p.split("::") if s]
        if len(segs) >= 2:
            en = canon_name("::".join(segs[:-1]))
            if en in self.enums or en in self.fieldless:
                return en, segs[-1]
        last = canon_name("::".join(segs))
        return last, None
