"""To-be-signed / to-be-MACed / AEAD additional-data structures (C03, C04, C05, C02 tail) and the
create-then-verify histories of the message builders (C06)."""
import z3

import concrete
import hcommon
import models
import refdec
import refenc
from hcommon import JobResult
from interp import Panic, Unsupported
from jobs_encode import strip_original, written_registry
from lazy import InputNode, Policy
from values import (UNIT, Adt, Arr, BoxV, Cell, FnV, Lazy, Ref, Sc, SetV, Tup, VecV, bv, deep_clone, is_sym)

SIG_CTX = {"CoseSignature": "Signature", "CoseSign1": "Signature1", "CounterSignature": "CounterSignature"}
MAC_CTX = {"CoseMac": "MAC", "CoseMac0": "MAC0"}
ENC_CTX = {"CoseEncrypt": "Encrypt", "CoseEncrypt0": "Encrypt0", "EncRecipient": "Enc_Recipient",
           "MacRecipient": "Mac_Recipient", "RecRecipient": "Rec_Recipient"}
RECIPIENT_CTX = ("EncRecipient", "MacRecipient", "RecRecipient")


def text_value(s):
    return Adt("Value", "Text", [VecV([Sc("u8", b) for b in s.encode()], None, "string")])


def bytes_value(v):
    return Adt("Value", "Bytes", [VecV(None if v.elems is None else list(v.elems), v.opaque, "vec")])


def slice_ref(v):
    return Ref(Cell(v))


def ctx_enum(eng, enum, variant):
    return Sc("isize", eng.impls.variant_discr(enum, variant), enum=enum)


class Malformed(Exception):
    pass


def parse_segments(ctx, segs):
    """Reference CBOR reader over hand-assembled output: a concatenation of single bytes (concrete
    or symbolic), opaque byte strings and serialised sub-trees.  Returns the Value tree the bytes
    denote; raises Malformed (with the path condition extended to a witness) when some length in a
    head does not match what follows."""
    from values import Opaque
    written = ctx.side.get("written", {})
    pos = [0]

    def need_byte():
        if pos[0] >= len(segs) or not isinstance(segs[pos[0]], Sc):
            raise Malformed("a head byte was expected at segment %d" % pos[0])
        b = segs[pos[0]]
        pos[0] += 1
        return b

    def item():
        if pos[0] >= len(segs):
            raise Malformed("output ends early")
        sg = segs[pos[0]]
        if isinstance(sg, Opaque):
            if sg.ident in written:
                pos[0] += 1
                return deep_clone(written[sg.ident])
            raise Malformed("raw bytes where an item head was expected")
        b = need_byte()
        t = bv(b)
        major = ctx.choose_cond([z3.Extract(7, 5, t) == k for k in range(8)], "rd:major")
        ai = z3.Extract(4, 0, t)
        k = ctx.choose_cond([z3.ULT(ai, 24), ai == 24, ai == 25, ai == 26, ai == 27, z3.UGT(ai, 27)], "rd:ai")
        if k == 5:
            raise Malformed("indefinite / reserved additional information in hand-assembled output")
        if k == 0:
            n = z3.ZeroExt(59, ai)
        else:
            w = [1, 2, 4, 8][k - 1]
            bs = [bv(need_byte()) for _ in range(w)]
            n = bs[0]
            for x in bs[1:]:
                n = z3.Concat(n, x)
            n = z3.ZeroExt(64 - 8 * w, n) if w < 8 else n
            # the structures are the deterministic encoding (what the serialiser emits): a head
            # uses the shortest form that holds its argument
            least = z3.BitVecVal([24, 1 << 8, 1 << 16, 1 << 32][k - 1], 64)
            if ctx.check(z3.ULT(n, least)):
                ctx.assume(z3.ULT(n, least))
                raise Malformed("a hand-assembled head is not in the shortest form for its argument")
        n = z3.simplify(n)
        if major in (0, 1):
            val = z3.ZeroExt(64, n) if major == 0 else (z3.BitVecVal(-1, 128) - z3.ZeroExt(64, n))
            return Adt("Value", "Integer", [Adt("Integer", None, [Sc("i128", z3.simplify(val))])])
        if major in (2, 3):
            # content: one opaque string (or nothing when the length is zero)
            if pos[0] < len(segs) and isinstance(segs[pos[0]], Opaque) and segs[pos[0]].ident not in written:
                o = segs[pos[0]]
                pos[0] += 1
                ln = o.len if is_sym(o.len) else z3.BitVecVal(o.len, 64)
                if ctx.check(ln != n):
                    ctx.assume(ln != n)
                    raise Malformed("a byte-string head announces a length different from the content that follows")
                content = VecV(None, o, "vec" if major == 2 else "string")
            else:
                if ctx.check(n != 0):
                    ctx.assume(n != 0)
                    raise Malformed("a byte-string head announces content that does not follow")
                content = VecV([], None, "vec" if major == 2 else "string")
            return Adt("Value", "Bytes" if major == 2 else "Text", [content])
        if major in (4, 5):
            if not z3.is_bv_value(n):
                raise Malformed("symbolic array length in hand-assembled output")
            cnt = n.as_long()
            if major == 4:
                return Adt("Value", "Array", [VecV([item() for _ in range(cnt)], None, "vec")])
            return Adt("Value", "Map", [VecV([Tup([item(), item()]) for _ in range(cnt)], None, "vec")])
        if major == 6:
            return Adt("Value", "Tag", [Sc("u64", n), BoxV(Cell(item()))])
        if z3.is_bv_value(n) and n.as_long() in (20, 21):
            return Adt("Value", "Bool", [Sc("bool", n.as_long() == 21)])
        if z3.is_bv_value(n) and n.as_long() == 22:
            return Adt("Value", "Null", [])
        raise Malformed("unsupported simple value")
    tree = item()
    if pos[0] != len(segs):
        raise Malformed("trailing bytes after the item")
    return tree


def tree_of_bytes(ctx, v):
    """The Value tree a produced byte string denotes: the tree recorded by the serialiser stub, or
    -- for hand-assembled output -- the result of reading the concatenation with the reference
    reader.  None if the bytes are neither."""
    from values import Opaque
    v = refenc.deref(v)
    if isinstance(v, VecV) and v.elems is None:
        return ctx.side.get("written", {}).get(v.opaque.ident)
    if isinstance(v, VecV) and v.elems and any(isinstance(e, Opaque) for e in v.elems):
        return parse_segments(ctx, v.elems)
    return None


class Recorder:
    """Harness callback standing for the caller's sign / verify / MAC / cipher function."""

    def __init__(self, ctx, name, result):
        self.ctx, self.name, self.result = ctx, name, result
        self.calls = []

    def fnv(self):
        def py(ctx, args):
            self.calls.append([refenc.deref(a) for a in args])
            return self.result() if callable(self.result) else self.result
        return FnV(py=py)


def ok_unit():
    return Adt("Result", "Ok", [UNIT])


def f_(impls, adt, name):
    return adt.fields[impls.struct_fields(adt.ty).index(name)]


def expected_structure(ctx, eng, context_text, protecteds, tail):
    ref = refenc.RefEnc(ctx, eng.impls)
    items = [text_value(context_text)] + [ref.protected_value(p) for p in protecteds] + [bytes_value(t) for t in tail]
    return ref.varray(items)


def check_structure(ctx, got_bytes, expected, what):
    """`got_bytes` must be the serialisation of exactly `expected` (compared as trees)."""
    try:
        tree = tree_of_bytes(ctx, got_bytes)
    except Malformed as e:
        return what + ": output is not a well-formed deterministic CBOR encoding (%s)" % e
    if tree is None:
        return what + ": bytes handed over are not a serialised structure"
    eq = refenc.value_eq(ctx, tree, expected, ctx.side.get("written", {}), std_keys=set())
    if eq is True:
        return None
    if eq is False or ctx.check(z3.Not(eq)):
        if eq is not False:
            ctx.assume(z3.Not(eq))
        return what + ": structure differs from the RFC 8152 definition"
    return None


def expect_panic(ctx, thunk):
    try:
        thunk()
    except Panic as p:
        return True
    return False


PATHS = dict((k, v[1]) for k, v in refdec.DECODERS.items())


def structure_job(eng, tables, prop, tname, policy, deadline, max_paths=None, initial=None, bfs=False,
                  slice_s=None, built=False, tag=""):
    """For every message obtained by decoding (or its builder-made twin): the bytes produced by the
    tbs / verify / MAC / decrypt helpers are the serialisation of the RFC 8152 structure, the
    documented refusals are panics, and nothing else panics."""
    if isinstance(policy, dict):
        policy = Policy(**policy)
    path = PATHS[tname]
    job = JobResult("structure:%s%s%s" % (tname, ":built" if built else "", tag))
    dec = "<%s as AsCborValue>::from_cbor_value" % path
    seen = {}
    I = eng.impls

    def harness(ctx):
        v = ctx.lazy_value("v", policy)
        r = ctx.call(dec, [v])
        if r.variant != "Ok":
            return "rejected"
        x = r.fields[0]
        if built:
            x = strip_original(I, x)
        aad = ctx.fresh_opaque("aad", "vec")
        ext = ctx.fresh_opaque("detached", "vec")
        ctx.side["lens"] = (aad.opaque.len, ext.opaque.len)
        problems = []
        xr = Ref(Cell(x))
        prot = f_(I, x, "protected")
        short = tname
        if tname in ("CoseSign1", "CoseSign"):
            payload = f_(I, x, "payload")
            emb = payload.fields[0] if payload.variant == "Some" else VecV([], None, "vec")
            signers = [None] if tname == "CoseSign1" else list(f_(I, x, "signatures").elems)
            for idx, sg in enumerate(signers):
                protecteds = [prot] if sg is None else [prot, f_(I, sg, "protected")]
                ctxt = SIG_CTX["CoseSign1"] if sg is None else SIG_CTX["CoseSignature"]
                exp = expected_structure(ctx, eng, ctxt, protecteds, [aad, emb])
                extra = [] if sg is None else [Ref(Cell(sg))]
                out = ctx.call("%s::tbs_data" % short, [xr, slice_ref(aad)] + extra)
                p = check_structure(ctx, out, exp, "tbs_data")
                if p:
                    problems.append(("tbs", p))
                rec = Recorder(ctx, "verifier", ok_unit)
                which = [] if sg is None else [Sc("usize", idx)]
                res = ctx.call("%s::verify_signature" % short, [xr] + which + [slice_ref(aad), rec.fnv()])
                if len(rec.calls) != 1 or res.variant != "Ok":
                    problems.append(("verify", "verify_signature did not call the verifier exactly once / altered its result"))
                else:
                    sig_bytes = f_(I, x if sg is None else sg, "signature")
                    e1 = hcommon.spec_eq(ctx, rec.calls[0][0], sig_bytes)
                    if e1 is not True and (e1 is False or ctx.check(z3.Not(e1))):
                        problems.append(("verify", "verifier did not receive the stored signature"))
                    p = check_structure(ctx, rec.calls[0][1], exp, "verify_signature")
                    if p:
                        problems.append(("verify", p))
                # detached variants
                dextra = [slice_ref(ext), slice_ref(aad)] + extra
                if payload.variant == "Some":
                    if not expect_panic(ctx, lambda: ctx.call("%s::tbs_detached_data" % short, [xr] + dextra)):
                        problems.append(("detached", "tbs_detached_data accepted a message with an embedded payload"))
                else:
                    out = ctx.call("%s::tbs_detached_data" % short, [xr] + dextra)
                    expd = expected_structure(ctx, eng, ctxt, protecteds, [aad, ext])
                    p = check_structure(ctx, out, expd, "tbs_detached_data")
                    if p:
                        problems.append(("detached", p))
                    rec = Recorder(ctx, "verifier", ok_unit)
                    ctx.call("%s::verify_detached_signature" % short,
                             [xr] + which + [slice_ref(ext), slice_ref(aad), rec.fnv()])
                    if len(rec.calls) != 1:
                        problems.append(("detached", "verify_detached_signature did not call the verifier once"))
                    else:
                        p = check_structure(ctx, rec.calls[0][1], expd, "verify_detached_signature")
                        if p:
                            problems.append(("detached", p))
            if tname == "CoseSign":
                n = len(signers)
                rec = Recorder(ctx, "verifier", ok_unit)
                if not expect_panic(ctx, lambda: ctx.call("CoseSign::verify_signature",
                                                          [xr, Sc("usize", n), slice_ref(aad), rec.fnv()])):
                    problems.append(("index", "verify_signature with which == len did not panic"))
        elif tname in ("CoseMac", "CoseMac0"):
            payload = f_(I, x, "payload")
            rec = Recorder(ctx, "verify", ok_unit)
            if payload.variant == "None":
                if not expect_panic(ctx, lambda: ctx.call("%s::verify_tag" % short, [xr, slice_ref(aad), rec.fnv()])):
                    problems.append(("refusal", "verify_tag without a payload did not panic"))
            else:
                res = ctx.call("%s::verify_tag" % short, [xr, slice_ref(aad), rec.fnv()])
                exp = expected_structure(ctx, eng, MAC_CTX[tname], [prot], [aad, payload.fields[0]])
                if len(rec.calls) != 1 or res.variant != "Ok":
                    problems.append(("verify", "verify_tag did not call the function exactly once / altered its result"))
                else:
                    e1 = hcommon.spec_eq(ctx, rec.calls[0][0], f_(I, x, "tag"))
                    if e1 is not True and (e1 is False or ctx.check(z3.Not(e1))):
                        problems.append(("verify", "verify function did not receive the stored tag"))
                    p = check_structure(ctx, rec.calls[0][1], exp, "verify_tag")
                    if p:
                        problems.append(("verify", p))
        elif tname in ("CoseEncrypt", "CoseEncrypt0", "CoseRecipient"):
            ct = f_(I, x, "ciphertext")
            contexts = [None] if tname != "CoseRecipient" else list(ENC_CTX)
            for cname in contexts:
                rec = Recorder(ctx, "cipher", lambda: Adt("Result", "Ok", [VecV([], None, "vec")]))
                cargs = [] if cname is None else [ctx_enum(eng, "EncryptionContext", cname)]
                call = lambda: ctx.call("%s::decrypt" % short, [xr] + cargs + [slice_ref(aad), rec.fnv()])
                refuse = ct.variant == "None" or (cname is not None and cname not in RECIPIENT_CTX)
                if refuse:
                    if not expect_panic(ctx, call):
                        problems.append(("refusal", "decrypt without ciphertext / with a non-recipient context did not panic"))
                    continue
                res = call()
                ctext = ENC_CTX[tname] if cname is None else ENC_CTX[cname]
                exp = expected_structure(ctx, eng, ctext, [prot], [aad])
                if len(rec.calls) != 1 or res.variant != "Ok":
                    problems.append(("decrypt", "decrypt did not call the cipher exactly once / altered its result"))
                else:
                    e1 = hcommon.spec_eq(ctx, rec.calls[0][0], ct.fields[0])
                    if e1 is not True and (e1 is False or ctx.check(z3.Not(e1))):
                        problems.append(("decrypt", "cipher did not receive the stored ciphertext"))
                    p = check_structure(ctx, rec.calls[0][1], exp, "decrypt(%s)" % ctext)
                    if p:
                        problems.append(("decrypt", p))
        return problems

    def on_leaf(ctx, out):
        node = ctx.inputs.get("v")
        if out[0] == "panic":
            cls, what = "panic:" + out[1].kind, "a helper panics on a decoded message: %s" % out[1]
        elif out[0] == "ok":
            if out[1] == "rejected":
                job.rejecting += 1
                return
            job.accepting += 1
            if not out[1]:
                return
            cls, what = out[1][0]
        else:
            return
        key = "%s:%s:%s%s" % (prop, tname, cls, ":built" if built else "")
        seen[key] = seen.get(key, 0) + 1
        if seen[key] > 2:
            return
        m = ctx.model()
        if m is None:
            return
        reg = {}
        tree = concrete.node_to_tree(m, node, reg)
        job.findings.append({"property": prop, "key": key, "what": "%s: %s" % (tname, what), "op": "ops",
                             "type": tname, "input_hex": concrete.encode(tree).hex(),
                             "command": "ops structures %s %s %s %d %d" % (
                                 tname, "built" if built else "wire", concrete.encode(tree).hex(),
                                 *[min(concrete._ev(m, l), 70000) for l in ctx.side.get("lens", (12, 16))]),
                             "predicted": "PANIC" if cls.startswith("panic") else "MISMATCH",
                             "compare": "startswith"})

    hcommon.run_paths(eng, job, harness, deadline, max_paths, on_leaf, initial=initial, bfs=bfs, slice_s=slice_s)
    job.extra["finding_counts"] = seen
    return job


def free_structure_job(eng, tables, prop, which, deadline, max_paths=None, initial=None, bfs=False, slice_s=None):
    """sig_structure_data / mac_structure_data / enc_structure_data with every context, a protected
    header that is decoded (retained bytes), empty, or built (alg only / one extra), arbitrary
    AAD and payload."""
    job = JobResult("free-structure:" + which)
    seen = {}
    I = eng.impls

    def gen_protected(ctx, name):
        import jobs_encode
        k = ctx.choose(6, "prot-kind@" + name)
        none = Adt("Option", "None", [])
        if k == 0:      # decoded from the wire: arbitrary retained bytes, arbitrary parsed view
            hdr = header_palette(ctx, eng, tables, name + ".w")
            od = Adt("Option", "Some", [ctx.fresh_opaque(name + ".wire", "vec")])
            ctx.side.setdefault("kinds", []).append("w")
        else:           # built: the four palette headers, and one that has no encoding
            hdr = header_palette_k(ctx, eng, tables, name + ".b", k - 1)
            od = none
            ctx.side.setdefault("kinds", []).append(str(k - 1))
            if k - 1 == 4:
                ctx.side["unencodable"] = True
        return jobs_encode.mk_struct(I, "ProtectedHeader", original_data=od, header=hdr)

    def harness(ctx):
        aad, payload = ctx.fresh_opaque("aad", "vec"), ctx.fresh_opaque("payload", "vec")
        body = gen_protected(ctx, "body")
        problems = []
        if which == "sig":
            names = list(SIG_CTX)
            ci = ctx.choose(3, "context")
            c = names[ci]
            has_sign = ctx.choose(2, "sign-protected") == 1
            sign = gen_protected(ctx, "sign") if has_sign else None
            opt = Adt("Option", "Some", [sign]) if has_sign else Adt("Option", "None", [])
            keep_body, keep_sign = deep_clone(body), deep_clone(sign) if sign is not None else None
            out = ctx.call("sig_structure_data", [ctx_enum(eng, "SignatureContext", c), body, opt,
                                                  slice_ref(aad), slice_ref(payload)])
            exp = None if ctx.side.get("unencodable") else \
                expected_structure(ctx, eng, SIG_CTX[c], [keep_body] + ([keep_sign] if has_sign else []), [aad, payload])
        elif which == "mac":
            names = list(MAC_CTX)
            ci = ctx.choose(2, "context")
            c = names[ci]
            keep_body = deep_clone(body)
            out = ctx.call("mac_structure_data", [ctx_enum(eng, "MacContext", c), body, slice_ref(aad), slice_ref(payload)])
            exp = None if ctx.side.get("unencodable") else expected_structure(ctx, eng, MAC_CTX[c], [keep_body], [aad, payload])
        else:
            names = list(ENC_CTX)
            ci = ctx.choose(5, "context")
            c = names[ci]
            keep_body = deep_clone(body)
            out = ctx.call("enc_structure_data", [ctx_enum(eng, "EncryptionContext", c), body, slice_ref(aad)])
            exp = None if ctx.side.get("unencodable") else expected_structure(ctx, eng, ENC_CTX[c], [keep_body], [aad])
        kinds = ctx.side.get("kinds", [])
        ctx.side["cmd"] = "ops free_structures %s %d %s %s" % (which, ci, kinds[0], kinds[1] if len(kinds) > 1 else "-")
        ctx.side["lens"] = (aad.opaque.len, payload.opaque.len)
        if ctx.side.get("unencodable"):
            # the call returned although a protected header has no encoding: whatever it produced is
            # not the structure of that header
            return [("free-unencodable", which + "_structure_data(%s) produced bytes for a protected header that has no "
                     "encoding (an extra parameter repeats a typed field's label) instead of refusing" % c)]
        try:
            p = check_structure(ctx, out, exp, which + "_structure_data(%s)" % c)
        except refenc.EncodeFault:
            p = None
        return [("free", p)] if p else []

    def on_leaf(ctx, out):
        if out[0] == "panic":
            # a built header with duplicate labels makes the helper panic ("always serializable"):
            # only headers that can be encoded are in scope
            if "unwrap" in str(out[1]) or "expect" in str(out[1]):
                job.rejecting += 1
                return
            cls, what = "panic:" + out[1].kind, "panics: %s" % out[1]
        elif out[0] == "ok":
            job.accepting += 1
            if not out[1]:
                return
            cls, what = out[1][0]
        else:
            return
        key = "%s:%s:%s" % (prop, which, cls)
        seen[key] = seen.get(key, 0) + 1
        if seen[key] > 2:
            return
        m = ctx.model()
        lens = ""
        if m is not None and "lens" in ctx.side:
            lens = " %d %d" % tuple(min(concrete._ev(m, l), 70000) for l in ctx.side["lens"])
        job.findings.append({"property": prop, "key": key, "what": what, "op": "ops", "type": which,
                             "input_hex": "", "command": ctx.side.get("cmd", "ops free_structures " + which) + lens,
                             "predicted": "PANIC" if cls.startswith("panic") else "MISMATCH", "compare": "startswith",
                             "decisions": [list(d) for d in ctx.trace][:40]})

    hcommon.run_paths(eng, job, harness, deadline, max_paths, on_leaf, initial=initial, bfs=bfs, slice_s=slice_s)
    job.extra["finding_counts"] = seen
    return job


# ------------------------------------------------------------------------------- C06 histories

def header_palette(ctx, eng, tables, name, members=(0, 1, 2, 3)):
    """empty | alg only | kid only | one extra parameter (enough to separate 'empty -> zero-length
    bstr' from 'encoded map', and to make protected headers differ); `members` selects a subset."""
    members = ctx.side.get("palette", members)
    return header_palette_k(ctx, eng, tables, name, members[ctx.choose(len(members), "hdr@" + name)])


def header_palette_k(ctx, eng, tables, name, k):
    import jobs_encode
    I = eng.impls
    h = refdec.RefDec(ctx, I, tables).empty_header()
    order = I.struct_fields("Header")
    if k == 1:
        h.fields[order.index("alg")] = Adt("Option", "Some", [Adt("RegisteredLabelWithPrivate", "Assigned",
                                                                 [Sc("isize", -7, enum="Algorithm")])])
    elif k == 2:
        h.fields[order.index("key_id")] = ctx.fresh_opaque(name + ".kid", "vec", nonempty=True)
    elif k == 3:
        h.fields[order.index("rest")] = VecV([Tup([Adt("Label", "Int", [Sc("i64", ctx.fresh_bv(name + ".label", 64))]),
                                                   Adt("Value", "Null", [])])], None, "vec")
        # a label of a typed field would make the header unencodable: builders refuse those
        lab = h.fields[order.index("rest")].elems[0].fields[0].fields[0].v
        ctx.assume(z3.Or(lab < 1, lab > 7))
    elif k == 4:
        # alg plus an extra parameter under alg's own label: a header for which no encoding exists
        h.fields[order.index("alg")] = Adt("Option", "Some", [Adt("RegisteredLabelWithPrivate", "Assigned",
                                                                 [Sc("isize", -7, enum="Algorithm")])])
        h.fields[order.index("rest")] = VecV([Tup([Adt("Label", "Int", [Sc("i64", 1)]), Adt("Value", "Null", [])])], None, "vec")
    return h


def deep_value_eq(ctx, a, b):
    """Equality of two Value trees / byte strings where a byte string produced by the serialiser
    stub is compared through the tree it stands for (serialisation is a function of the tree)."""
    a, b = refenc.deref(a), refenc.deref(b)
    if isinstance(a, VecV) and isinstance(b, VecV) and a.elems is None and b.elems is None:
        if a.opaque.ident == b.opaque.ident:
            return True
        w = ctx.side.get("written", {})
        ta, tb = w.get(a.opaque.ident), w.get(b.opaque.ident)
        if ta is not None and tb is not None:
            return deep_value_eq(ctx, ta, tb)
        return models.bytes_eq(ctx, a, b)
    if isinstance(a, Adt) and isinstance(b, Adt) and a.ty == "Value" and b.ty == "Value":
        if a.variant != b.variant:
            return False
        if a.variant == "Bytes":
            return deep_value_eq(ctx, a.fields[0], b.fields[0])
        if a.variant == "Array":
            xs, ys = a.fields[0].elems, b.fields[0].elems
            if len(xs) != len(ys):
                return False
            return refenc._and([deep_value_eq(ctx, x, y) for x, y in zip(xs, ys)])
        if a.variant == "Map":
            xs, ys = a.fields[0].elems, b.fields[0].elems
            if len(xs) != len(ys):
                return False
            return refenc._and([deep_value_eq(ctx, x.fields[i], y.fields[i]) for x, y in zip(xs, ys) for i in (0, 1)])
    return hcommon.spec_eq(ctx, a, b)


FAMILIES = {
    "CoseSign1": dict(builder="CoseSign1Builder", family="sign1", store="signature", tagged=True),
    "CoseMac0": dict(builder="CoseMac0Builder", family="mac", store="tag", tagged=True),
    "CoseMac": dict(builder="CoseMacBuilder", family="mac", store="tag", tagged=True),
    "CoseEncrypt0": dict(builder="CoseEncrypt0Builder", family="enc", store="ciphertext", tagged=True),
    "CoseEncrypt": dict(builder="CoseEncryptBuilder", family="enc", store="ciphertext", tagged=True),
    "CoseRecipient": dict(builder="CoseRecipientBuilder", family="enc", store="ciphertext", tagged=False),
    "CoseSign": dict(builder="CoseSignBuilder", family="sign", store="signatures", tagged=True),
}


def jobs_encode_mod():
    import jobs_encode
    return jobs_encode


def history_job(eng, tables, prop, tname, steps, deadline, max_paths=None, initial=None, bfs=False, slice_s=None,
                palette=(0, 1, 2, 3), classes=None, wire_template=False):
    """Builder call histories of length <= steps (setters and create/try-create helpers in any
    order), then build -> encode -> decode (Value level, byte level, tagged) -> verify/decrypt with
    the same or a different AAD."""
    spec = FAMILIES[tname]
    B = spec["builder"]
    fam = spec["family"]
    path = PATHS[tname]
    I = eng.impls
    job = JobResult("history:%s%s" % (tname, ":wire-template" if wire_template else ""))
    seen = {}
    tmpl_policy = Policy(max_array=3, max_map=1, max_text=1, max_depth=3, max_total_entries=1, max_total_items=3)

    def harness(ctx):
        problems = []
        ctx.side["palette"] = tuple(palette)
        b = ctx.call("%s::new" % B, [])
        aad = ctx.fresh_opaque("aad", "vec")
        created = None          # (record of the creating closure, its returned bytes, signer index)
        dirty = False           # protected header or payload changed after the last create
        ended_with_error = False
        rctx = None
        n_signers = 0
        shadow_prot = jobs_encode_mod().mk_struct(I, "ProtectedHeader", original_data=Adt("Option", "None", []),
                                                  header=refdec.RefDec(ctx, I, tables).empty_header())
        for i in range(steps):
            methods = ["protected", "unprotected", "create", "try_create"]
            if fam in ("sign1", "sign", "mac"):
                methods += ["payload"]
            if fam in ("sign1", "sign"):
                methods += ["create_detached", "try_create_detached"]
            m = methods[ctx.choose(len(methods), "step%d" % i)]
            if m in ("protected", "unprotected"):
                hdr = header_palette(ctx, eng, tables, "s%d" % i)
                if m == "protected":
                    # shadow model: a builder-made protected header is the header last set, never
                    # bytes retained from anywhere
                    shadow_prot = jobs_encode_mod().mk_struct(I, "ProtectedHeader", original_data=Adt("Option", "None", []),
                                                              header=deep_clone(hdr))
                b = ctx.call("%s::%s" % (B, m), [b, hdr])
                if m == "protected" and created is not None:
                    dirty = True
            elif m == "payload":
                b = ctx.call("%s::payload" % B, [b, ctx.fresh_opaque("payload%d" % i, "vec")])
                if created is not None:
                    dirty = True
            else:
                out_bytes = ctx.fresh_opaque("made%d" % i, "vec")
                fallible = m in ("try_create", "try_create_detached")
                detached_m = m in ("create_detached", "try_create_detached")
                fail = fallible and ctx.choose(2, "creator-fails%d" % i) == 1
                err = Adt("HarnessError", None, [Sc("u64", ctx.fresh_bv("err", 64))])
                result = (lambda: Adt("Result", "Err", [err])) if fail else \
                    ((lambda: Adt("Result", "Ok", [out_bytes])) if fallible else (lambda: out_bytes))
                rec = Recorder(ctx, "creator", result)
                args = [b]
                sigv = None
                if fam == "sign" and wire_template:
                    # the signature template is a COSE_Signature decoded from the wire (its protected
                    # header keeps whatever bytes it arrived in)
                    from interp import Infeasible
                    tnode = InputNode("tmpl%d" % i, tmpl_policy)
                    ctx.inputs["tmpl%d" % i] = tnode
                    rt = ctx.call("<sign::CoseSignature as AsCborValue>::from_cbor_value", [Lazy(tnode)])
                    if rt.variant != "Ok":
                        raise Infeasible("template not accepted")
                    sigv = rt.fields[0]
                    ctx.side.setdefault("templates", {})[i] = tnode
                    args.append(sigv)
                elif fam == "sign":
                    import jobs_encode
                    sigv = jobs_encode.mk_struct(I, "CoseSignature",
                                                 protected=jobs_encode.mk_struct(I, "ProtectedHeader", original_data=Adt("Option", "None", []),
                                                                                 header=header_palette(ctx, eng, tables, "sg%d" % i)),
                                                 unprotected=refdec.RefDec(ctx, I, tables).empty_header(),
                                                 signature=VecV([], None, "vec"))
                    args.append(sigv)
                sig_prot = deep_clone(f_(I, sigv, "protected")) if sigv is not None else None
                name = {"sign1": "create_signature", "sign": "add_created_signature", "mac": "create_tag",
                        "enc": "create_ciphertext"}[fam]
                if detached_m:
                    name = {"sign1": "create_detached_signature", "sign": "add_detached_signature"}[fam]
                    args.append(slice_ref(ctx.fresh_opaque("detached", "vec")))
                if fallible:
                    name = "try_" + name
                plaintext = None
                if fam == "enc":
                    if tname == "CoseRecipient":
                        rcn = list(ENC_CTX)[ctx.choose(5, "rctx%d" % i)]
                        rctx = rcn
                        args.append(ctx_enum(eng, "EncryptionContext", rcn))
                    plaintext = ctx.fresh_opaque("plaintext%d" % i, "vec")
                    args.append(slice_ref(plaintext))
                args += [slice_ref(aad), rec.fnv()]
                # documented refusals
                cur = refenc.deref(b).fields[0]
                must_panic = False
                if fam == "mac" and f_(I, cur, "payload").variant == "None":
                    must_panic = True
                if detached_m and f_(I, cur, "payload").variant == "Some":
                    must_panic = True
                if tname == "CoseRecipient" and rctx not in RECIPIENT_CTX:
                    must_panic = True
                if must_panic:
                    if not expect_panic(ctx, lambda: ctx.call("%s::%s" % (B, name), args)):
                        problems.append(("refusal", "%s did not refuse (documented panic)" % name))
                    return problems
                res = ctx.call("%s::%s" % (B, name), args)
                if len(rec.calls) != 1:
                    problems.append(("create", "%s did not call the creator exactly once" % name))
                    return problems
                # the bytes handed to the creator are the RFC 8152 structure of the builder's current
                # state (so different protected headers / AAD / payload never share them)
                curp = shadow_prot
                if fam in ("sign1", "sign"):
                    pay = f_(I, cur, "payload")
                    tail_p = refenc.deref(args[1 if fam == "sign1" else 2]) if detached_m else \
                        (pay.fields[0] if pay.variant == "Some" else VecV([], None, "vec"))
                    prots = [curp] if fam == "sign1" else [curp, deep_clone(sig_prot)]
                    ctext = SIG_CTX["CoseSign1"] if fam == "sign1" else SIG_CTX["CoseSignature"]
                    want = expected_structure(ctx, eng, ctext, prots, [aad, tail_p])
                elif fam == "mac":
                    want = expected_structure(ctx, eng, MAC_CTX[tname], [curp], [aad, f_(I, cur, "payload").fields[0]])
                else:
                    want = expected_structure(ctx, eng, ENC_CTX[tname] if tname != "CoseRecipient" else ENC_CTX[rctx],
                                              [curp], [aad])
                try:
                    pstruct = check_structure(ctx, rec.calls[0][-1], want, name)
                except refenc.EncodeFault:
                    pstruct = None
                if pstruct:
                    problems.append(("create-structure", pstruct))
                    return problems
                if fam == "enc":
                    e0 = hcommon.spec_eq(ctx, rec.calls[0][0], plaintext)
                    if e0 is not True and (e0 is False or ctx.check(z3.Not(e0))):
                        problems.append(("create", "cipher did not receive the plaintext"))
                if fallible:
                    if fail:
                        same = res.variant == "Err" and hcommon.spec_eq(ctx, res.fields[0], err)
                        if same is not True and (same is False or ctx.check(z3.Not(same))):
                            problems.append(("try", "failing creator's error was not returned unchanged"))
                        ended_with_error = True
                        break
                    if res.variant != "Ok":
                        problems.append(("try", "successful creator produced an error"))
                        return problems
                    b = res.fields[0]
                else:
                    b = res
                created = (rec.calls[0][-1], out_bytes, n_signers, detached_m,
                           args[2] if (detached_m and fam == "sign") else (args[1] if detached_m else None))
                if fam == "sign":
                    n_signers += 1
                dirty = False
        if ended_with_error or created is None:
            return problems
        x = ctx.call("%s::build" % B, [b])
        # ---- the wire ------------------------------------------------------------------------
        wire = ctx.choose(3 if spec["tagged"] else 2, "wire")
        if wire == 0:
            r1 = ctx.call("<%s as AsCborValue>::to_cbor_value" % path, [x])
            if r1.variant != "Ok":
                return problems          # unencodable message (e.g. duplicate labels): out of scope
            r2 = ctx.call("<%s as AsCborValue>::from_cbor_value" % path, [r1.fields[0]])
        elif wire == 1:
            r1 = ctx.call("<%s as CborSerializable>::to_vec" % path, [x])
            if r1.variant != "Ok":
                return problems
            r2 = ctx.call("<%s as CborSerializable>::from_slice" % path, [slice_ref(r1.fields[0])])
        else:
            r1 = ctx.call("<%s as TaggedCborSerializable>::to_tagged_vec" % path, [x])
            if r1.variant != "Ok":
                return problems
            r2 = ctx.call("<%s as TaggedCborSerializable>::from_tagged_slice" % path, [slice_ref(r1.fields[0])])
        if r2.variant != "Ok":
            problems.append(("wire", "a built message does not decode after encoding (%s)" % r2.fields[0].variant))
            return problems
        y = r2.fields[0]
        yr = Ref(Cell(y))
        if dirty:
            return problems              # premise of the property not met: only absence of panics
        made_bytes, made, signer_idx, detached, det_payload = created[0], created[1], created[2], created[3], created[4]
        same_aad = ctx.choose(2, "same-aad") == 0
        aad2 = aad
        if not same_aad:
            aad2 = ctx.fresh_opaque("aad2", "vec")
            c = models.bytes_eq(ctx, aad, aad2)
            ctx.assume(z3.Not(c) if c is not True and c is not False else True)
        rec = Recorder(ctx, "verifier", (lambda: Adt("Result", "Ok", [VecV([], None, "vec")])) if fam == "enc" else ok_unit)
        if fam == "sign1":
            name = "verify_detached_signature" if detached else "verify_signature"
            args = [yr] + ([det_payload] if detached else []) + [slice_ref(aad2), rec.fnv()]
        elif fam == "sign":
            name = "verify_detached_signature" if detached else "verify_signature"
            args = [yr, Sc("usize", signer_idx)] + ([det_payload] if detached else []) + [slice_ref(aad2), rec.fnv()]
        elif fam == "mac":
            name, args = "verify_tag", [yr, slice_ref(aad2), rec.fnv()]
        else:
            name = "decrypt"
            args = [yr] + ([ctx_enum(eng, "EncryptionContext", rctx)] if tname == "CoseRecipient" else []) + \
                [slice_ref(aad2), rec.fnv()]
        res = ctx.call("%s::%s" % (tname, name), args)
        if len(rec.calls) != 1 or res.variant != "Ok":
            problems.append(("verify", "%s did not call the caller's function exactly once / altered its result" % name))
            return problems
        got_stored, got_bytes = rec.calls[0][0], rec.calls[0][1]
        e1 = deep_value_eq(ctx, got_stored, made)
        if e1 is not True and (e1 is False or ctx.check(z3.Not(e1))):
            problems.append(("verify", "the verifying function did not receive what the creating function returned"))
        e2 = deep_value_eq(ctx, got_bytes, made_bytes)
        if same_aad:
            if e2 is not True and (e2 is False or ctx.check(z3.Not(e2))):
                if e2 is not False:
                    ctx.assume(z3.Not(e2))
                problems.append(("verify", "bytes handed to the verifier differ from the bytes that were signed/MACed/encrypted"))
        else:
            if e2 is True or (e2 is not False and ctx.check(e2)):
                problems.append(("verify", "a different external AAD did not change the bytes handed over"))
        return problems

    def on_leaf(ctx, out):
        if out[0] == "panic":
            cls, what = "panic:" + out[1].kind, "undocumented panic in a builder history: %s" % out[1]
        elif out[0] == "ok":
            job.accepting += 1
            if not out[1]:
                return
            cls, what = out[1][0]
        else:
            return
        if classes is not None and not any(cls.startswith(c) for c in classes):
            return
        key = "%s:%s:%s" % (prop, tname, cls)
        seen[key] = seen.get(key, 0) + 1
        if seen[key] > 2:
            return
        job.findings.append({"property": prop, "key": key, "what": "%s: %s" % (tname, what), "op": "ops",
                             "type": tname, "input_hex": "",
                             "predicted": "PANIC" if cls.startswith("panic") else "MISMATCH", "compare": "startswith",
                             "command": "ops history %s %s%s" % (tname, history_spec(ctx), template_spec(ctx)),
                             "decisions": [list(d) for d in ctx.trace][:60]})

    hcommon.run_paths(eng, job, harness, deadline, max_paths, on_leaf, initial=initial, bfs=bfs, slice_s=slice_s)
    job.extra["finding_counts"] = seen
    return job


def template_spec(ctx):
    """wire-template histories: the concrete bytes of each decoded signature template"""
    tm = ctx.side.get("templates")
    if not tm:
        return ""
    m = ctx.model()
    if m is None:
        return ""
    reg = {}
    return " " + ",".join("%d:%s" % (i, concrete.encode(concrete.node_to_tree(m, n, reg)).hex()) for i, n in sorted(tm.items()))


def history_spec(ctx):
    """The decision sequence that identifies the history (steps, palettes, wire form)."""
    out = []
    pal = ctx.side.get("palette", (0, 1, 2, 3))
    for label, k in ctx.trace:
        if label.startswith("hdr@"):
            k = pal[k]                  # the replayer is told the palette member, not the decision index
        if label.startswith(("step", "hdr@", "creator-fails", "wire", "same-aad", "rctx")):
            out.append("%s=%d" % (label.replace("@", "."), k))
    return ",".join(out) or "-"
