"""Engine K: run Kani proof harnesses over /repo's current working tree and interpret the results.

One `cargo kani` invocation per property run (own target dir, so concurrent checks do not clobber
each other).  The verdict per harness comes from Kani's JSON export + the per-harness log:

  ok            -- VERIFICATION SUCCESSFUL, unwinding assertions on, every cover!() satisfied
  failed        -- at least one real check failed  -> concrete playback -> native replay
  vacuous       -- a cover!() was unsatisfiable / unreachable (harness broken, never a pass)
  inconclusive  -- timeout, out of memory, CBMC/Kani internal error, unwinding bound too small
"""
import glob
import json
import os
import re
import shutil
import time

from common import CACHE, REPO, VERIF, Finding, log, offline_env, run

KANI_CRATE = os.path.join(VERIF, "kani")


class HarnessResult:
    def __init__(self, name):
        self.name = name
        self.status = "inconclusive"
        self.reason = ""
        self.duration_s = 0.0
        self.stats = {}
        self.props = {}
        self.failed_checks = []
        self.log_path = None

    def as_sample(self):
        return {"harness": self.name, "status": self.status, "reason": self.reason,
                "wall_s": round(self.duration_s, 2),
                "cbmc_properties": self.props.get("total_properties"),
                "covers_satisfied": self.props.get("satisfied"),
                "vccs_generated": self.stats.get("vccs_generated"),
                "vccs_after_simplification": self.stats.get("vccs_remaining"),
                "symex_s": self.stats.get("runtime_symex_s"),
                "solver_s": self.stats.get("runtime_solver_s")}


def _kani_env(target_dir):
    return offline_env({"CARGO_TARGET_DIR": target_dir})


def sync_lockfile():
    """The harness crate resolves the same dependency versions as /repo."""
    src = os.path.join(REPO, "Cargo.lock")
    dst = os.path.join(KANI_CRATE, "Cargo.lock")
    if os.path.exists(src) and not os.path.exists(dst):
        shutil.copy(src, dst)


def run_harnesses(prop, filters, harness_timeout_s, jobs, overall_timeout_s, tag=""):
    """Run every harness whose name contains one of `filters`. Returns list[HarnessResult]."""
    sync_lockfile()
    pid = prop.lower() + tag
    rundir = os.path.join(CACHE, "run", pid)
    shutil.rmtree(rundir, ignore_errors=True)
    os.makedirs(rundir, exist_ok=True)
    target = os.path.join(CACHE, "kani-target-" + pid)
    js = os.path.join(rundir, "kani.json")
    cmd = ["cargo", "kani", "--manifest-path", os.path.join(KANI_CRATE, "Cargo.toml"),
           "-Z", "stubbing", "-Z", "unstable-options", "-j", str(jobs),
           "--harness-timeout", "%ds" % harness_timeout_s, "--output-into-files",
           "--output-format", "terse", "--export-json", js]
    for f in filters:
        cmd += ["--harness", f]
    t0 = time.time()
    rc, out, wall = run(cmd, cwd=rundir, env=_kani_env(target), timeout=overall_timeout_s,
                        stdout_path=os.path.join(rundir, "kani.log"))
    results = {}
    if not os.path.exists(js):
        log("[K] no JSON export (rc=%s); see %s" % (rc, os.path.join(rundir, "kani.log")))
        tail = "\n".join(out.splitlines()[-25:])
        r = HarnessResult("<build>")
        r.status, r.reason = "inconclusive", "cargo kani produced no result export (rc=%s): %s" % (rc, tail[-1500:])
        return [r], wall
    d = json.load(open(js))
    stats = {c["harness_id"]: (c.get("cbmc_stats") or {}) for c in d.get("cbmc", [])}
    pdet = {c["harness_id"]: (c.get("property_details") or {}) for c in d.get("property_details", [])}
    should_panic = {h["pretty_name"]: h.get("attributes", {}).get("should_panic", False)
                    for h in d.get("harness_metadata", [])}
    for h in d.get("harness_metadata", []):
        results[h["pretty_name"]] = HarnessResult(h["pretty_name"])
    for r in d.get("verification_results", {}).get("results", []):
        name = r["harness_id"]
        hr = results.setdefault(name, HarnessResult(name))
        hr.duration_s = r.get("duration_ms", 0) / 1000.0
        hr.stats = stats.get(name, {})
        hr.props = pdet.get(name, {})
        logp = os.path.join(rundir, "result_output_dir", name)
        hr.log_path = logp if os.path.exists(logp) else None
        text = open(logp).read() if hr.log_path else ""
        _classify(hr, r.get("status"), text, should_panic.get(name, False))
    if rc is None:
        for hr in results.values():
            if hr.status == "inconclusive" and not hr.reason:
                hr.reason = "overall time limit reached before this harness ran"
    return list(results.values()), wall


def _classify(hr, status, text, should_panic):
    failed = re.findall(r"Failed Checks: (.*)", text)
    hr.failed_checks = failed
    if "CBMC timed out" in text:
        hr.status, hr.reason = "inconclusive", "CBMC timed out (per-harness cap)"
        return
    if re.search(r"out of memory|std::bad_alloc|Status: ERROR|CBMC failed", text) and not failed:
        hr.status, hr.reason = "inconclusive", "CBMC error / out of memory"
        return
    if any("unwinding assertion" in f for f in failed):
        hr.status, hr.reason = "inconclusive", "unwinding bound too small: " + "; ".join(failed[:3])
        return
    if any("is not currently supported by Kani" in f or "unsupported" in f.lower() for f in failed):
        hr.status, hr.reason = "inconclusive", "construct unsupported by Kani: " + "; ".join(failed[:3])
        return
    unsat_cov = hr.props.get("unsatisfiable", 0) or 0
    unreach_cov = len(re.findall(r"cover properties? (?:un)?satisfied", text)) and 0
    m = re.search(r"(\d+) of (\d+) cover properties satisfied", text)
    if status == "Success":
        if m and int(m.group(1)) != int(m.group(2)):
            hr.status = "vacuous"
            hr.reason = "only %s of %s cover!() witnesses satisfied" % (m.group(1), m.group(2))
        elif unsat_cov:
            hr.status, hr.reason = "vacuous", "%d cover!() witnesses unsatisfiable" % unsat_cov
        else:
            hr.status = "ok"
        return
    if failed:
        hr.status, hr.reason = "failed", "; ".join(failed[:6])
        return
    if should_panic and "VERIFICATION:- FAILED" in text:
        hr.status, hr.reason = "failed", "should_panic harness did not panic"
        return
    hr.status, hr.reason = "inconclusive", "verification failed without a failed check (status=%s)" % status


_TEST_RE = re.compile(r"```\s*\n(.*?)```", re.S)


def playback(prop, hr, tag=""):
    """Concrete playback of a failed harness: ask Kani for the counterexample as a unit test,
    run that test natively (dev and release) against /repo's real code.  Returns a Finding."""
    short = hr.name.split("::")[-1]
    modfile = hr.name.split("::")[0] + ".rs"
    pbdir = os.path.join(CACHE, "playback", short)
    shutil.rmtree(pbdir, ignore_errors=True)
    os.makedirs(os.path.dirname(pbdir), exist_ok=True)
    shutil.copytree(KANI_CRATE, pbdir, ignore=shutil.ignore_patterns("target"))
    target = os.path.join(CACHE, "kani-target-" + prop.lower() + tag)
    cmd = ["cargo", "kani", "--manifest-path", os.path.join(KANI_CRATE, "Cargo.toml"),
           "-Z", "stubbing", "-Z", "unstable-options", "-Z", "concrete-playback",
           "--concrete-playback", "print", "--harness", hr.name, "--exact",
           "--harness-timeout", "900s"]
    rc, out, wall = run(cmd, cwd=pbdir, env=_kani_env(target), timeout=1200)
    tests = [t for t in _TEST_RE.findall(out) if "kani_concrete_playback" in t]
    key = "%s:%s" % (short, _key_of(hr.failed_checks))
    what = "Kani harness %s: %s" % (short, hr.reason)
    if not tests:
        return Finding(prop, key, what + " (no concrete playback could be extracted)", None, False,
                       detail=out[-2000:])
    test = tests[0]
    tname = re.search(r"fn (kani_concrete_playback_\w+)", test).group(1)
    src = os.path.join(pbdir, "src", modfile)
    with open(src, "a") as f:
        f.write("\n// --- concrete playback of a Kani counterexample (generated by /verif/check) ---\n")
        f.write(test + "\n")
    verdicts = []
    # `cargo kani playback` has no --release switch in 0.68: the release-like run re-uses the dev
    # profile with release settings injected through cargo's environment configuration.
    rel = {"CARGO_PROFILE_DEV_OPT_LEVEL": "3", "CARGO_PROFILE_DEV_DEBUG_ASSERTIONS": "false",
           "CARGO_PROFILE_DEV_OVERFLOW_CHECKS": "false", "CARGO_PROFILE_TEST_OPT_LEVEL": "3",
           "CARGO_PROFILE_TEST_DEBUG_ASSERTIONS": "false", "CARGO_PROFILE_TEST_OVERFLOW_CHECKS": "false"}
    for pname, penv in (("dev", {}), ("release-like", rel)):
        # `cargo kani playback` rejects --target-dir; CARGO_TARGET_DIR is honoured.
        cmd = ["cargo", "kani", "playback", "-Z", "concrete-playback",
               "--manifest-path", os.path.join(pbdir, "Cargo.toml"), "--", tname]
        env = _kani_env(os.path.join(CACHE, "playback-target-" + pname))
        env.update(penv)
        prc, pout, _ = run(cmd, cwd=pbdir, env=env, timeout=900)
        ran = "running 1 test" in pout
        failed_natively = ran and bool(re.search(r"test result: FAILED", pout))
        verdicts.append((pname, prc, failed_natively, pout[-1500:]))
    reproduced = all(v[2] for v in verdicts)
    detail = {"test": test, "native": [{"profile": v[0], "rc": v[1], "fails": v[2], "tail": v[3]}
                                       for v in verdicts]}
    return Finding(prop, key, what, src, reproduced, detail)


def _key_of(failed_checks):
    if not failed_checks:
        return "unknown"
    f = failed_checks[0]
    f = re.sub(r"\s+", "_", f.strip())
    return re.sub(r"[^A-Za-z0-9_.:=<>!-]", "", f)[:80]


def clean(prop, tag=""):
    for d in ("kani-target-" + prop.lower() + tag, os.path.join("run", prop.lower() + tag)):
        shutil.rmtree(os.path.join(CACHE, d), ignore_errors=True)
