"""Property check driver: runs the engines registered for a property, triages what they report,
writes the evidence file and decides the exit code."""
import argparse
import json
import os
import re
import shutil
import sys
import time

import common
from common import (EXIT_INCONCLUSIVE, EXIT_OK, EXIT_VIOLATION, Finding, load_known_findings, log,
                    seed, tier, write_evidence)
import props


def main(argv):
    ap = argparse.ArgumentParser(prog="check")
    ap.add_argument("target", nargs="?")
    ap.add_argument("--tier", choices=["quick", "thorough"])
    ap.add_argument("--replay")
    ap.add_argument("--only", help="comma-separated engine jobs to run (debugging)")
    ap.add_argument("--keep", action="store_true", help="keep build output afterwards")
    a = ap.parse_args(argv)
    if a.tier:
        os.environ["VERIF_TIER"] = a.tier
    if a.replay:
        return replay(a.replay)
    if a.target == "setup":
        return setup()
    if a.target == "list":
        for p in sorted(props.PROPS):
            print(p, props.PROPS[p]["title"])
        return 0
    if not a.target or a.target.upper() not in props.PROPS:
        ap.print_usage()
        print("known properties:", " ".join(sorted(props.PROPS)))
        return 2
    return check(a.target.upper(), a)


def setup():
    """Offline build of what the checks share: nothing is fetched. The Kani harness crate and the
    MIR dump are rebuilt from /repo by every check, so setup only verifies the tool chain."""
    import kani_runner
    kani_runner.sync_lockfile()
    ok = True
    for tool in (["cargo", "kani", "--version"], ["cbmc", "--version"],
                 ["cargo", "+nightly", "--version"]):
        rc, out, _ = common.run(tool, timeout=120)
        print(" ".join(tool), "->", (out.strip().splitlines() or ["?"])[0])
        ok = ok and rc == 0
    try:
        import z3
        print("z3 python", z3.get_version_string())
    except Exception as e:  # pragma: no cover
        print("z3 python missing:", e)
        ok = False
    os.makedirs(common.EVIDENCE, exist_ok=True)
    return 0 if ok else 2


def replay(path):
    """Re-run a replay artefact.  Kani playbacks are Rust test files inside a copy of the harness
    crate; mirsym replays are JSON files interpreted by the native replayer."""
    import kani_runner
    if path.endswith(".rs"):
        crate = os.path.dirname(os.path.dirname(path))
        src = open(path).read()
        names = re.findall(r"fn (kani_concrete_playback_\w+)", src)
        rc_all = 0
        for n in names:
            rc, out, _ = common.run(["cargo", "kani", "playback", "-Z", "concrete-playback",
                                     "--manifest-path", os.path.join(crate, "Cargo.toml"), "--", n],
                                    cwd=crate, timeout=900,
                                    env=common.offline_env({"CARGO_TARGET_DIR": os.path.join(common.CACHE, "playback-target")}))
            print(out[-3000:])
            if re.search(r"test result: FAILED|panicked at", out):
                rc_all = 1
        return rc_all
    if path.endswith(".json"):
        import mir_runner
        return mir_runner.replay_file(path)
    print("unknown replay artefact", path)
    return 2


def check(prop, args):
    t0 = time.time()
    spec = props.PROPS[prop]
    tr = tier()
    findings, inconclusive, samples = [], [], []
    assumptions = list(spec.get("assumptions", []))
    cov = {"states": 0, "transitions": 0, "traces_validated_against_impl": 0, "samples": samples,
           "engines": {}, "functions_encoded": [],
           "bounds": spec.get("bounds", {}).get(tr, "") if tr == "quick" else
           ("the quick bounds in full [%s]; then, for the rest of the time budget, the deeper jobs [%s] -- a deeper mirsym job "
            "named in engines.mirsym.summary.thorough_not_completed was explored only in part (no violation on the part "
            "explored) and is not claimed" % (spec.get("bounds", {}).get("quick", ""), spec.get("bounds", {}).get("thorough", ""))),
           "outside_bounds": spec.get("outside", ""), "queries_discharged": 0, "solver_time_s": 0.0}
    only = set(args.only.split(",")) if args.only else None
    known = [k for k in load_known_findings() if k["property"] == prop]
    new_reproduced = 0

    # ---------------- Engine K ----------------
    kspec = spec.get("kani")
    if kspec and (only is None or "k" in only):
        import kani_runner
        filters = list(kspec["quick"]) + (list(kspec.get("thorough", [])) if tr == "thorough" else [])
        if kspec.get("pre") == "gen_c17":
            # regenerate the harness tables from the committed reference table (idempotent)
            common.run([sys.executable, os.path.join(common.VERIF, "lib", "gen_c17.py")], timeout=120)
        hto = kspec.get("timeout", {}).get(tr, 300 if tr == "quick" else 1800)
        jobs = kspec.get("jobs", 8)
        results, wall = kani_runner.run_harnesses(prop, filters, hto, jobs,
                                                  overall_timeout_s=hto * 6 + 600)
        kcov = {"harnesses": len(results), "ok": 0, "wall_s": round(wall, 1)}
        for hr in sorted(results, key=lambda r: r.name):
            samples.append(hr.as_sample())
            cov["functions_encoded"].append("kani:" + hr.name)
            cov["states"] += int(hr.props.get("total_properties") or 0)
            cov["transitions"] += int(hr.stats.get("vccs_generated") or 0)
            cov["queries_discharged"] += int(hr.props.get("total_properties") or 0)
            cov["solver_time_s"] += float(hr.stats.get("runtime_solver_s") or 0) + \
                float(hr.stats.get("runtime_symex_s") or 0)
            if hr.status == "ok":
                kcov["ok"] += 1
            elif hr.status == "failed":
                if new_reproduced >= 2:
                    # two reproduced, unlisted violations are enough to report; the rest is
                    # recorded without the (slow) playback step
                    findings.append(Finding(prop, "skipped:" + hr.name, "Kani harness %s: %s "
                                            "(playback skipped)" % (hr.name, hr.reason), None, None))
                    continue
                log("[K] %s FAILED: %s -> concrete playback" % (hr.name, hr.reason))
                f = kani_runner.playback(prop, hr)
                if f.reproduced and not any(re.search(k["key"], f.key) for k in known):
                    new_reproduced += 1
                if f.reproduced:
                    cov["traces_validated_against_impl"] += 1
                findings.append(f)
            else:
                inconclusive.append("%s: %s (%s)" % (hr.name, hr.status, hr.reason))
        if not results:
            inconclusive.append("no Kani harness matched %s" % filters)
        expected = kspec.get("expect_harnesses", {}).get(tr)
        if expected and kcov["harnesses"] < expected:
            inconclusive.append("only %d of %d expected Kani harnesses ran" % (kcov["harnesses"], expected))
        cov["engines"]["kani"] = kcov
        assumptions += props.KANI_ASSUMPTIONS
        if not args.keep:
            kani_runner.clean(prop)

    # ---------------- Engine M ----------------
    mspec = spec.get("mirsym")
    if mspec and (only is None or "m" in only):
        import mir_runner
        mres = mir_runner.run_jobs(prop, mspec, tr)
        cov["engines"]["mirsym"] = mres["summary"]
        cov["states"] += mres["paths"]
        cov["transitions"] += mres["forks"]
        cov["queries_discharged"] += mres["queries"]
        cov["solver_time_s"] += mres["solver_s"]
        cov["traces_validated_against_impl"] += mres["validated"]
        cov["functions_encoded"] += mres["functions"]
        samples.extend(mres["samples"][:12])
        findings += mres["findings"]
        inconclusive += mres["inconclusive"]
        assumptions += mres["assumptions"]

    cov["solver_time_s"] = round(cov["solver_time_s"], 3)
    # ---------------- triage ----------------
    new_violations, unreproduced, known_hit = [], [], []
    for f in findings:
        if f.reproduced is None:
            continue
        kk = [k for k in known if re.search(k["key"], f.key)]
        if kk and f.reproduced:
            known_hit.append((f, kk[0]))
        elif f.reproduced:
            new_violations.append(f)
        else:
            unreproduced.append(f)
    for f, k in known_hit:
        print("KNOWN-FINDING: property=%s %s [%s]" % (prop, k["what"], f.key))
    for f in unreproduced:
        inconclusive.append("counterexample did not reproduce natively: %s (%s)" % (f.what, f.key))
    cov["known_findings_seen"] = [f.key for f, _ in known_hit]
    cov["findings"] = [f.as_dict() for f in findings][:20]
    cov["inconclusive"] = inconclusive[:40]
    if not samples:
        samples.append({"note": "no engine job produced a sample"})
    cov["states"] = max(cov["states"], 1)
    cov["transitions"] = max(cov["transitions"], 1)
    wall = time.time() - t0
    write_evidence(prop, "model_checking", cov, assumptions, wall, len(new_violations))
    for f in new_violations:
        print("VIOLATION property=%s replay=%s" % (prop, f.replay))
        print("  what: %s" % f.what)
        print("  key:  %s" % f.key)
    if new_violations:
        return EXIT_VIOLATION
    if inconclusive:
        for i in inconclusive:
            print("INCONCLUSIVE property=%s %s" % (prop, i))
        return EXIT_INCONCLUSIVE
    print("OK property=%s tier=%s engines=%s wall=%.1fs" % (prop, tr, ",".join(cov["engines"]), wall))
    return EXIT_OK
