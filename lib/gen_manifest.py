"""Regenerates MANIFEST.json from lib/props.py (run: python3 lib/gen_manifest.py)."""
import json, os, sys
sys.path.insert(0, os.path.dirname(os.path.abspath(__file__)))
import props

HERE = os.path.dirname(os.path.dirname(os.path.abspath(__file__)))
ALL = ["C%02d" % i for i in range(1, 21)]

checks = []
for pid in sorted(props.PROPS):
    p = props.PROPS[pid]
    engines = [e for e in ("kani", "mirsym") if p.get(e)]
    checks.append({
        "property_id": pid,
        "quick_cmd": "./check %s --tier quick" % pid,
        "thorough_cmd": "./check %s --tier thorough" % pid,
        "evidence_file": "/verif/evidence/%s.json" % pid,
        "replay_cmd_template": "./check --replay {path}",
        "engine": "+".join(engines),
        "level_claimed": {
            "category": "model_checking",
            "text": p.get("level_text", "Bounded symbolic execution of coset's real code decided by "
                          "a SAT/SMT solver: holds for every input within the stated bounds, or a "
                          "concrete counterexample replayed natively."),
            "design_ref": p.get("design_ref", "DESIGN.md section 5, " + pid),
        },
        "level_note": p.get("level_note", "Bounds: quick: %s | thorough: %s. Outside: %s" % (
            p.get("bounds", {}).get("quick", ""), p.get("bounds", {}).get("thorough", ""),
            p.get("outside", ""))),
        "technique": p.get("technique", "solver-based bounded checking of the real code (" +
                           " + ".join({"kani": "Kani/CBMC harnesses over the compiled crate",
                                       "mirsym": "symbolic execution of rustc MIR with z3"}[e]
                                      for e in engines) + ")"),
    })

na = []
for pid in ALL:
    if pid not in props.PROPS:
        na.append({"property_id": pid, "reason": props.NOT_APPLICABLE.get(
            pid, "check not built yet in this round; no claim is made")})

manifest = {
    "version": 1,
    "setup_cmd": "./check setup",
    "hooks": {
        "guard": "google_coset_verif",
        "enable": "none needed: both engines use coset's public API and the compiler's own IR; "
                  "no source hooks are compiled in",
        "baseline_off_cmd": "cd /repo && cargo test --workspace --no-fail-fast --offline",
        "source_commits": [],
        "add_only": True,
    },
    "engines": [
        {"name": "kani", "path": "/verif/kani",
         "serves_properties": sorted(p for p in props.PROPS if props.PROPS[p].get("kani")),
         "kind_free_text": "Kani 0.68 / CBMC 6.11 proof harnesses (external crate, path dependency "
                           "on /repo, rebuilt from the working tree on every run)"},
        {"name": "mirsym", "path": "/verif/mirsym",
         "serves_properties": sorted(p for p in props.PROPS if props.PROPS[p].get("mirsym")),
         "kind_free_text": "path-forking symbolic interpreter for rustc's MIR dump of coset "
                           "(regenerated from /repo on every run) with z3 as decision procedure"},
    ],
    "checks": checks,
    "not_applicable": na,
    "notes": "All checks: ./check <ID>; tier via --tier or VERIF_TIER; exit 2 = inconclusive "
             "(time-out of a claimed job / engine error / non-reproducing counterexample), never success. "
             "Thorough = the quick job list in full, then the deeper job list for the rest of the budget "
             "(3000 s, VERIF_BUDGET_S overrides); a deeper mirsym job that does not finish is listed in the "
             "evidence under thorough_not_completed and is not claimed.",
}
with open(os.path.join(HERE, "MANIFEST.json"), "w") as f:
    json.dump(manifest, f, indent=1)
    f.write("\n")
print("checks:", [c["property_id"] for c in checks], "n/a:", [n["property_id"] for n in na])
