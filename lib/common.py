"""Shared plumbing for the /verif checks: paths, subprocesses, evidence files, known findings."""
import json
import os
import re
import signal
import subprocess
import sys
import time

VERIF = os.path.dirname(os.path.dirname(os.path.abspath(__file__)))
REPO = os.environ.get("VERIF_REPO", "/repo")
CACHE = os.path.join(VERIF, ".cache")
EVIDENCE = os.path.join(VERIF, "evidence")
KNOWN_FINDINGS = os.path.join(VERIF, "KNOWN_FINDINGS.txt")

EXIT_OK = 0
EXIT_VIOLATION = 1
EXIT_INCONCLUSIVE = 2


def tier():
    t = os.environ.get("VERIF_TIER", "quick")
    return t if t in ("quick", "thorough") else "quick"


def seed():
    try:
        return int(os.environ.get("VERIF_SEED", "0"))
    except ValueError:
        return 0


def offline_env(extra=None):
    env = dict(os.environ)
    env.update({"CARGO_NET_OFFLINE": "true", "GOPROXY": "off", "PIP_NO_INDEX": "1"})
    if extra:
        env.update(extra)
    return env


def run(cmd, cwd=None, env=None, timeout=None, stdout_path=None):
    """Run a command in its own process group; kill the group on timeout.
    Returns (returncode or None on timeout, output text, wall seconds)."""
    t0 = time.time()
    out_f = open(stdout_path, "w") if stdout_path else subprocess.PIPE
    p = subprocess.Popen(cmd, cwd=cwd, env=env or offline_env(), stdout=out_f,
                         stderr=subprocess.STDOUT, text=True, start_new_session=True)
    try:
        out, _ = p.communicate(timeout=timeout)
        rc = p.returncode
    except subprocess.TimeoutExpired:
        try:
            os.killpg(p.pid, signal.SIGKILL)
        except ProcessLookupError:
            pass
        out, _ = p.communicate()
        rc = None
    if stdout_path:
        out_f.close()
        with open(stdout_path) as f:
            out = f.read()
    return rc, out or "", time.time() - t0


class Finding:
    """A violation candidate produced by an engine.

    key    -- stable role-based identification (used to match KNOWN_FINDINGS.txt)
    what   -- one-line human description
    replay -- path of a file that reproduces it natively (None when not reproduced)
    reproduced -- True when a native run against the real code confirmed it
    """

    def __init__(self, prop, key, what, replay=None, reproduced=False, detail=None):
        self.prop, self.key, self.what = prop, key, what
        self.replay, self.reproduced, self.detail = replay, reproduced, detail

    def as_dict(self):
        return {"property": self.prop, "key": self.key, "what": self.what,
                "replay": self.replay, "reproduced": self.reproduced, "detail": self.detail}


def load_known_findings():
    """KNOWN_FINDINGS.txt lines:
         known: property=<id> key=<regex on finding key> :: <what fails>
         fixed: property=<id> <commit> <what failed>        (suppresses nothing)
    """
    known = []
    if not os.path.exists(KNOWN_FINDINGS):
        return known
    for line in open(KNOWN_FINDINGS):
        line = line.strip()
        m = re.match(r"known:\s+property=(\S+)\s+key=(\S+)\s*::\s*(.*)$", line)
        if m:
            known.append({"property": m.group(1), "key": m.group(2), "what": m.group(3)})
    return known


def write_evidence(prop, level, coverage, assumptions, wall_s, violations, extra=None):
    os.makedirs(EVIDENCE, exist_ok=True)
    ev = {
        "property_id": prop,
        "tier": tier(),
        "seed": seed(),
        "level": level,
        "coverage": coverage,
        "assumptions": assumptions,
        "wall_s": round(wall_s, 3),
        "violations": violations,
    }
    if extra:
        ev.update(extra)
    path = os.path.join(EVIDENCE, prop + ".json")
    tmp = path + ".tmp"
    with open(tmp, "w") as f:
        json.dump(ev, f, indent=1, sort_keys=False, default=str)
        f.write("\n")
    os.replace(tmp, path)
    return path


def log(*a):
    print(*a, file=sys.stderr, flush=True)
