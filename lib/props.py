"""Registry: which engine jobs decide which property, with bounds and assumptions per tier."""

KANI_ASSUMPTIONS = [
    "Kani 0.68 / CBMC 6.11 model of rustc MIR and of the standard library (dev profile, "
    "overflow checks on); unwinding assertions enabled, so a too-small loop bound fails the run",
    "stub: alloc::fmt::format -> String::new() (error-message text is never observed)",
    "stub: Result::unwrap / Result::expect -> Debug-free twins with identical panic behaviour",
]

WRITER_ASSUMPTION = (
    "stub: ciborium::ser::into_writer replaced (capture stub / reference head encoder): ciborium's "
    "serde byte layer is outside what CBMC can execute; the claim covers the Value tree coset hands "
    "to the serialiser, and assumes ciborium serialises that tree in RFC 8949 shortest definite form")

PROPS = {}


def prop(pid, title, **kw):
    kw["title"] = title
    PROPS[pid] = kw


prop("C16", "Label ordering is a total order equal to CBOR's deterministic key ordering",
     kani={"quick": ["c16_"], "thorough": ["c16x_"], "timeout": {"quick": 400, "thorough": 1800},
           "jobs": 8},
     bounds={
         "quick": "integer labels: all 2^64 values per operand (pairs and triples); text labels: "
                  "all ASCII strings of length <= 3 (pairs) / <= 2 (mixed triples, registry labels); "
                  "registry variants: every enum value reachable through from_i64(any i64), private "
                  "values any i64 < -65536",
         "thorough": "as quick, plus text length <= 4 and multi-byte UTF-8 contents",
     },
     outside="text labels longer than the stated bound (length classes 23/24/255/256 are decided by "
             "mirsym where registered); cmp_canonical relies on the serialiser stub",
     assumptions=[])
NOT_APPLICABLE = {}
