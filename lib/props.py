"""Registry: which engine jobs decide which property, with bounds and assumptions per tier."""

KANI_ASSUMPTIONS = [
    "Kani 0.68 / CBMC 6.11 model of rustc MIR and of the standard library (dev profile, "
    "overflow checks on); unwinding assertions enabled, so a too-small loop bound fails the run",
    "stub: alloc::fmt::format -> String::new() (error-message text is never observed)",
    "stub: Result::unwrap / Result::expect -> Debug-free twins with identical panic behaviour",
]

WRITER_ASSUMPTION = (
    "stub: ciborium::ser::into_writer replaced (capture stub / reference head encoder): ciborium's "
    "serde byte layer is outside what CBMC can execute; the claim covers the Value tree coset hands "
    "to the serialiser, and assumes ciborium serialises that tree in RFC 8949 shortest definite form")

PROPS = {}


def prop(pid, title, **kw):
    kw["title"] = title
    PROPS[pid] = kw


prop("C16", "Label ordering is a total order equal to CBOR's deterministic key ordering",
     kani={"quick": ["c16_"], "thorough": ["c16x_"], "timeout": {"quick": 400, "thorough": 1800},
           "jobs": 8},
     bounds={
         "quick": "integer labels: all 2^64 values per operand (pairs and triples); text labels: "
                  "all ASCII strings of length <= 3 (pairs) / <= 2 (mixed triples, registry labels); "
                  "registry variants: every enum value reachable through from_i64(any i64), private "
                  "values any i64 < -65536",
         "thorough": "as quick, plus text length <= 4 and multi-byte UTF-8 contents",
     },
     outside="text labels longer than the stated bound (length classes 23/24/255/256 are decided by "
             "mirsym where registered); cmp_canonical relies on the serialiser stub",
     assumptions=[])


def _jl(name):
    def f(tier):
        import joblists
        return getattr(joblists, name)(tier)
    return f


prop("C09", "Message structures: accepted iff they match their CDDL, slots map to fields",
     mirsym={"jobs": _jl("c09"), "budget_s": {"quick": 300, "thorough": 2400}},
     bounds={
         "quick": "top-level arrays of arity 0..6 with every CBOR kind in every slot; nested arrays "
                  "bounded by a total of 10 array elements per input (one nested signature/recipient); "
                  "header maps with at most 1 entry in total per input (C08 explores headers); nesting "
                  "depth 4; integers: all of [-2^64, 2^64-1]; byte strings: symbolic 64-bit length",
         "thorough": "arity 0..7, 14 array elements and 2 map entries per input, depth 5, text <= 2",
     },
     outside="longer nested lists and larger header maps than the stated budgets; bytes inside "
             "protected headers are related to their parse only through the parser stub",
     assumptions=[])

prop("C15", "Integers are decoded exactly or rejected as out of range, never wrapped",
     kani={"quick": ["c15_"], "thorough": ["c15x_"], "timeout": {"quick": 400, "thorough": 1800}, "jobs": 8},
     mirsym={"jobs": _jl("c15"), "budget_s": {"quick": 240, "thorough": 1800}},
     bounds={
         "quick": "Kani: every CBOR integer n in [-2^64, 2^64-1] at every narrowing site reachable with a "
                  "single leaf Value (Label, the four RegisteredLabel and two RegisteredLabelWithPrivate "
                  "instantiations, cwt::Timestamp) and the encode direction for all i64; mirsym: the sites "
                  "inside containers (map labels of Header / CoseKey / ClaimsSet, crit and key_ops entries, "
                  "PartyInfo nonce, SuppPubInfo key data length (unsigned range), claim timestamps), all n, "
                  "containers with <= 1 map entry / <= 2 list elements, and preservation of integers in "
                  "uninterpreted positions",
         "thorough": "as quick with 2 map entries per container",
     },
     outside="head-width handling inside ciborium (parser stub)",
     assumptions=[])

prop("C17", "Registry names and integers correspond one-to-one with the IANA assignments",
     kani={"quick": ["c17_"], "thorough": ["c17x_"], "timeout": {"quick": 400, "thorough": 1800}, "jobs": 8,
           "pre": "gen_c17"},
     bounds={
         "quick": "all 16 registry enumerations: from_i64/to_i64 over every i64; every row of the independent "
                  "reference table /verif/iana_ref.json (222 rows); is_private over every i64 for the four "
                  "registries with a private range; label classification over every CBOR integer in "
                  "[-2^64, 2^64-1] for all six label-typed instantiations; text labels ASCII length <= 2",
         "thorough": "same (the quantification is already over the full integer domain)",
     },
     outside="the reference table is a manual transcription of the IANA registries (no network to re-fetch)",
     assumptions=["reference table /verif/iana_ref.json transcribed independently of coset's source"])

prop("C08", "Header maps: accepted iff well-formed, and every field means what the wire said",
     mirsym={"jobs": _jl("c08"), "budget_s": {"quick": 300, "thorough": 2400}},
     bounds={
         "quick": "header maps with <= 2 entries (every kind of key and value, all integer labels and values, "
                  "text <= 2 ASCII bytes, nested arrays <= 3 elements, 5 array elements in total) standalone; "
                  "as unprotected header and inside the protected bstr of a COSE_Encrypt0 with 1 entry in total",
         "thorough": "<= 3 entries standalone (text <= 3), 2 entries in total inside the carrier",
     },
     outside="maps with more entries; non-ASCII text in the content-type whitespace rule; the claim that the "
             "outcome depends only on the data-model value rests on coset seeing only a ciborium Value (C13)",
     assumptions=[])

prop("C10", "COSE_Key / COSE_KeySet: accepted iff well-formed, parameters map to fields",
     mirsym={"jobs": _jl("c10"), "budget_s": {"quick": 300, "thorough": 2400}},
     bounds={"quick": "key maps with <= 2 entries, key_ops arrays <= 3; key sets of <= 2 keys with 3 entries in total",
             "thorough": "key maps <= 3 entries; key sets <= 3 keys, 4 entries in total"},
     outside="larger maps / sets", assumptions=[])

prop("C18", "CWT claims sets and KDF contexts decode and encode per their definitions",
     mirsym={"jobs": _jl("c18"), "budget_s": {"quick": 300, "thorough": 2400}},
     bounds={"quick": "claims maps <= 2 entries; COSE_KDF_Context arrays of arity 0..6 with every kind per slot, "
                      "PartyInfo / SuppPubInfo arrays of arity 0..5",
             "thorough": "claims maps <= 3 entries, KDF context arity 0..7"},
     outside="encode direction is covered by C11's check; larger maps", assumptions=[])

NOT_APPLICABLE = {}
