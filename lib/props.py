"""Registry: which engine jobs decide which property, with bounds and assumptions per tier."""

KANI_ASSUMPTIONS = [
    "Kani 0.68 / CBMC 6.11 model of rustc MIR and of the standard library (dev profile, "
    "overflow checks on); unwinding assertions enabled, so a too-small loop bound fails the run",
    "stub: alloc::fmt::format -> String::new() (error-message text is never observed)",
    "stub: Result::unwrap / Result::expect -> Debug-free twins with identical panic behaviour",
]

WRITER_ASSUMPTION = (
    "stub: ciborium::ser::into_writer replaced (capture stub / reference head encoder): ciborium's "
    "serde byte layer is outside what CBMC can execute; the claim covers the Value tree coset hands "
    "to the serialiser, and assumes ciborium serialises that tree in RFC 8949 shortest definite form")

PROPS = {}


def _jl(name):
    def f(tier):
        import joblists
        return getattr(joblists, name)(tier)
    return f



def prop(pid, title, **kw):
    kw["title"] = title
    PROPS[pid] = kw


prop("C16", "Label ordering is a total order equal to CBOR's deterministic key ordering",
     kani={"quick": ["c16_"], "thorough": ["c16x_"], "timeout": {"quick": 400, "thorough": 1800},
           "jobs": 8},
     mirsym={"jobs": _jl("c16"), "budget_s": {"quick": 900, "thorough": 3000}, "need_both": False},
     bounds={
         "quick": "integer labels: all 2^64 values per operand (pairs and triples); text labels: "
                  "all ASCII strings of length <= 3 (pairs) / <= 2 (mixed triples, registry labels), strings of <= 2 "
                  "characters over a 1/2/3/4-byte character palette; mirsym: cmp and cmp_canonical over every pair of "
                  "labels with any i64 / any UTF-8 text of <= 2 bytes; "
                  "registry variants: every enum value reachable through from_i64(any i64), private "
                  "values any i64 < -65536",
         "thorough": "as quick, plus text length <= 4 and multi-byte UTF-8 contents",
     },
     outside="text labels longer than the stated bound (length classes 23/24/255/256 are decided by "
             "mirsym where registered); cmp_canonical relies on the serialiser stub",
     assumptions=[])


prop("C09", "Message structures: accepted iff they match their CDDL, slots map to fields",
     mirsym={"jobs": _jl("c09"), "budget_s": {"quick": 900, "thorough": 3000}},
     bounds={
         "quick": "top-level arrays of arity 0..6 with every CBOR kind in every slot; nested arrays "
                  "bounded by a total of 10 array elements per input (one nested signature/recipient); "
                  "header maps with at most 1 entry in total per input (C08 explores headers); nesting "
                  "depth 4; integers: all of [-2^64, 2^64-1]; byte strings: symbolic 64-bit length; "
                  "COSE_Sign / COSE_Recipient with up to 3 nested siblings (order of signatures / recipients); "
                  "counter-signature nesting spines of 1..12 levels (hanging off a COSE_Sign1, a standalone "
                  "COSE_Signature and the signer of a COSE_Sign; protected / unprotected headers, bare / "
                  "list form): accepted exactly up to the crate's documented MAX_COUNTER_SIGNATURE_DEPTH",
         "thorough": "arity 0..7, 14 array elements and 2 map entries per input, depth 5, text <= 2; spines to 16 levels",
     },
     outside="longer nested lists and larger header maps than the stated budgets; bytes inside "
             "protected headers are related to their parse only through the parser stub",
     assumptions=[])

prop("C15", "Integers are decoded exactly or rejected as out of range, never wrapped",
     kani={"quick": ["c15_"], "thorough": ["c15x_"], "timeout": {"quick": 400, "thorough": 1800}, "jobs": 8},
     mirsym={"jobs": _jl("c15"), "budget_s": {"quick": 900, "thorough": 3000}},
     bounds={
         "quick": "Kani: every CBOR integer n in [-2^64, 2^64-1] at every narrowing site reachable with a "
                  "single leaf Value (Label, the four RegisteredLabel and two RegisteredLabelWithPrivate "
                  "instantiations, cwt::Timestamp) and the encode direction for all i64; mirsym: the sites "
                  "inside containers (map labels of Header / CoseKey / ClaimsSet, crit and key_ops entries, "
                  "PartyInfo nonce, SuppPubInfo key data length (unsigned range), claim timestamps), all n, "
                  "containers with <= 1 map entry / <= 2 list elements, and preservation of integers in "
                  "uninterpreted positions",
         "thorough": "as quick with 2 map entries per container",
     },
     outside="head-width handling inside ciborium (parser stub)",
     assumptions=[])

prop("C17", "Registry names and integers correspond one-to-one with the IANA assignments",
     kani={"quick": ["c17_"], "thorough": ["c17x_"], "timeout": {"quick": 400, "thorough": 1800}, "jobs": 8,
           "pre": "gen_c17"},
     mirsym={"jobs": _jl("c17"), "budget_s": {"quick": 900, "thorough": 3000}},
     bounds={
         "quick": "all 16 registry enumerations: from_i64/to_i64 over every i64; every row of the independent "
                  "reference table /verif/iana_ref.json (222 rows); is_private over every i64 for the four "
                  "registries with a private range; label classification over every CBOR integer in "
                  "[-2^64, 2^64-1] for all six label-typed instantiations; text labels ASCII length <= 2; "
                  "mirsym: the label-typed positions inside containers (alg, crit entries, content type of a "
                  "header -- standalone and inside the protected / unprotected slot of a COSE_Sign1; kty, key "
                  "alg, key_ops entries of a key; claim names) over all integers, maps with 1 entry (keys: 2)",
         "thorough": "same domains (the quantification is already over the full integer domain); maps with 2 (3) entries",
     },
     outside="the reference table is a manual transcription of the IANA registries (no network to re-fetch)",
     assumptions=["reference table /verif/iana_ref.json transcribed independently of coset's source"])

prop("C08", "Header maps: accepted iff well-formed, and every field means what the wire said",
     mirsym={"jobs": _jl("c08"), "budget_s": {"quick": 900, "thorough": 3000}},
     bounds={
         "quick": "header maps with <= 2 entries (every kind of key and value, all integer labels and values, "
                  "text <= 2 bytes (any UTF-8), nested arrays <= 3 elements, 5 array elements in total) standalone; "
                  "as unprotected header and inside the protected bstr of a COSE_Encrypt0 with 1 entry in total; "
                  "header maps with exactly 3 entries whose values are integers or byte strings (all integer labels, "
                  "text labels <= 2 bytes): which labels count as repeated, wire order of the extras",
         "thorough": "<= 3 entries standalone with text <= 2 bytes, <= 2 entries with text <= 3 bytes, 2 entries in "
                     "total inside the carrier",
     },
     outside="maps with more entries; content-type text longer than 5 bytes is ASCII only; the claim that the "
             "outcome depends only on the data-model value rests on coset seeing only a ciborium Value (C13)",
     assumptions=[])

prop("C10", "COSE_Key / COSE_KeySet: accepted iff well-formed, parameters map to fields",
     mirsym={"jobs": _jl("c10"), "budget_s": {"quick": 900, "thorough": 3000}},
     bounds={"quick": "key maps with <= 2 entries, key_ops arrays <= 3; key maps with exactly 3 entries whose values "
                      "are integers or byte strings (wire order of parameters); key sets of <= 2 keys with 3 entries in total",
             "thorough": "key maps <= 3 entries (text <= 2); key sets <= 3 keys, 3 entries in total"},
     outside="larger maps / sets", assumptions=[])

prop("C18", "CWT claims sets and KDF contexts decode and encode per their definitions",
     mirsym={"jobs": _jl("c18"), "budget_s": {"quick": 900, "thorough": 3000}},
     bounds={"quick": "claims maps <= 2 entries, and claims maps with exactly 3 entries whose values are integers "
                      "or byte strings; COSE_KDF_Context arrays of arity 0..6 with every kind per slot, "
                      "PartyInfo / SuppPubInfo arrays of arity 0..5",
             "thorough": "claims maps <= 3 entries, KDF context arity 0..7"},
     outside="larger maps; encode direction: the decode -> encode (vs reference encoder) -> decode -> encode "
             "jobs over the four types with C07's bounds (values that only a builder can make: C11)", assumptions=[])

prop("C12", "No map handled by the crate ever carries the same label twice",
     mirsym={"jobs": _jl("c12"), "budget_s": {"quick": 900, "thorough": 3000}},
     bounds={"quick": "decode: header / claims maps with <= 2 entries and key maps with <= 3 (every pair of "
                      "positions, every label: all integers, text <= 2 bytes), nested positions (body "
                      "protected + unprotected, signers, recipients, counter-signatures) with 2 entries in total; "
                      "encode: see the encode jobs' bounds",
             "thorough": "one more entry per map"},
     outside="larger maps; key encodings (parser stub: coset sees the decoded key only)", assumptions=[])

_STRUCT_BOUNDS = {
    "quick": "messages obtained by decoding every accepted input within: arrays of the type's arity, one "
             "nested signature/recipient, 1 header map entry in total, depth 4 -- each once with its retained "
             "protected bytes and once as its builder-made twin (retained bytes dropped); external AAD, "
             "detached payload, payload, signature/tag/ciphertext: byte strings of symbolic 64-bit length; "
             "the free structure functions with every context and protected headers from the palette "
             "{decoded-from-wire, built empty, built alg-only, built kid-only, built one extra parameter, built "
             "with an extra parameter repeating a typed field's label (no encoding exists: must refuse)}; "
             "the create / try-create builder helpers after every history of <= 4 builder calls (3 for "
             "COSE_Sign1 / COSE_Sign / COSE_Recipient; headers from a 2-element palette): the creator receives the RFC structure of the builder's current state",
    "thorough": "2 header entries in total, 2 nested structures, depth 5; builder histories of <= 4 calls",
}
_STRUCT_ASSUME = ["the byte strings handed to the caller's closures are compared as the Value trees the "
                  "serialiser stub recorded: equality of bytes = equality of trees assumes ciborium serialises a "
                  "tree deterministically and injectively (RFC 8949 deterministic encoding)"]

prop("C03", "To-be-signed bytes are exactly RFC 8152 Sig_structure",
     mirsym={"jobs": _jl("c03"), "budget_s": {"quick": 900, "thorough": 3000}, "need_both": False},
     bounds=_STRUCT_BOUNDS, outside="length-class boundaries of each bstr head live inside ciborium",
     assumptions=_STRUCT_ASSUME)
prop("C04", "To-be-MACed bytes are exactly RFC 8152 MAC_structure",
     mirsym={"jobs": _jl("c04"), "budget_s": {"quick": 900, "thorough": 3000}, "need_both": False},
     bounds=_STRUCT_BOUNDS, outside="length-class boundaries of each bstr head live inside ciborium",
     assumptions=_STRUCT_ASSUME)
prop("C05", "AEAD additional data is exactly RFC 8152 Enc_structure",
     mirsym={"jobs": _jl("c05"), "budget_s": {"quick": 900, "thorough": 3000}, "need_both": False},
     bounds=_STRUCT_BOUNDS, outside="length-class boundaries of each bstr head live inside ciborium",
     assumptions=_STRUCT_ASSUME)
prop("C06", "What is signed, MACed or encrypted is what is later verified or decrypted",
     mirsym={"jobs": _jl("c06"), "budget_s": {"quick": 900, "thorough": 3000}, "need_both": False},
     bounds={"quick": "every sequence of <= 3 builder calls over {protected, unprotected, payload, create, "
                      "try-create (succeeding or failing creator), create-detached} for the seven message "
                      "builders, headers from a 4-element palette, all byte strings symbolic; then build, "
                      "encode/decode at the Value level, the byte level and (where defined) the tagged level, "
                      "verify/decrypt with the same or a different AAD; COSE_Sign with up to 3 signers; "
                      "COSE_Sign histories of <= 2 calls whose signature templates are COSE_Signatures decoded from "
                      "the wire (protected header with arbitrary retained bytes, <= 1 map entry)",
             "thorough": "sequences of <= 4 calls; wire-template histories of <= 3 calls"},
     outside="longer histories; perturbation of payload/protected header is covered through C03-C05's injectivity",
     assumptions=_STRUCT_ASSUME + ["parse(enc(v)) = v for byte strings written on the same path"])

_RT_BOUNDS = {
    "quick": "every input accepted by the type's decoder within: arrays of the type's arity (+1), nested arrays "
             "<= 3, maps <= 2 entries (2 in total per input), depth 4, text <= 1 byte, all integers, byte "
             "strings of symbolic 64-bit length",
    "thorough": "maps <= 3 entries (3 in total), nested arrays <= 4, depth 5, text <= 2",
}
prop("C02", "Protected-header bytes are kept and reused bit-for-bit, never re-encoded",
     mirsym={"jobs": _jl("c02"), "budget_s": {"quick": 900, "thorough": 3000}},
     bounds=_RT_BOUNDS,
     outside="'the parsed view is the same for every encoding of the same content' reduces to the parser "
             "(from_slice = from_cbor_value . parse, C13) and is not re-decided here",
     assumptions=_STRUCT_ASSUME)
prop("C07", "Decode-encode reaches a fixed point in one step and loses nothing",
     mirsym={"jobs": _jl("c07"), "budget_s": {"quick": 900, "thorough": 3000}},
     bounds={k: v + "; counter-signature nesting spines of 1..%d levels (protected / unprotected headers, bare / "
                    "list form)" % (12 if k == "quick" else 16) for k, v in _RT_BOUNDS.items()},
     outside="bignum-tagged integers and indefinite lengths are parser-level (stub)",
     assumptions=["parse(enc(v)) = v for byte strings written on the same path"])
prop("C11", "Encoding emits exactly the modelled content in the documented CBOR shape",
     mirsym={"jobs": _jl("c11"), "budget_s": {"quick": 900, "thorough": 3000}},
     bounds={"quick": _RT_BOUNDS["quick"] + "; values are the builder-made twins of decoded values (retained "
                      "bytes dropped) plus struct literals of Header / CoseKey / ClaimsSet with every subset of "
                      "typed fields and 2 arbitrary extra labels; values carrying a counter-signature spine of 1..8 "
                      "levels (three roots, four variants) encode and decode back",
             "thorough": _RT_BOUNDS["thorough"] + "; 3 arbitrary extra labels"},
     outside="byte-level well-formedness of the output is ciborium's (serialiser stub)",
     assumptions=["parse(enc(v)) = v for byte strings written on the same path"])
prop("C13", "An accepted input is exactly one CBOR item; byte and Value APIs agree",
     mirsym={"jobs": _jl("c13"), "budget_s": {"quick": 900, "thorough": 3000}, "need_both": False},
     bounds=_RT_BOUNDS,
     outside="raw-head inputs (1..33 symbolic bytes ++ opaque body, as in C14) are covered for the six taggable "
             "types; beyond that, 'every proper prefix of an accepted input is rejected' and 'a complete item followed by a suffix is "
             "parsed as that item' are facts about CBOR's prefix-freeness inside ciborium: assumed (parser stub "
             "returns an arbitrary consumed length), not decided",
     assumptions=[])
prop("C14", "Tagged forms carry exactly the structure's registered CBOR tag",
     mirsym={"jobs": _jl("c14"), "budget_s": {"quick": 900, "thorough": 3000}, "need_both": False},
     bounds={"quick": "all six taggable types; tag numbers: every u64; bodies as in C09's quick bounds with 1 map "
                      "entry in total; untagged decoders of all eight structure types on items that may be tags; "
                      "raw inputs = 1, 2, 3, 5, 9, 17 or 33 symbolic bytes followed by an opaque body, through "
                      "from_slice and from_tagged_slice of the six types: every tag-head encoding (all widths, "
                      "all 64-bit numbers, non-minimal forms) and every impossible first byte",
             "thorough": "bodies with 10 array elements in total, text <= 2 bytes, depth 7"},
     outside="head bytes that are neither one well-formed tag head nor an impossible first byte (e.g. two "
             "stacked tag heads: the doubly tagged case is decided at the Value level only); paths on which the "
             "code under analysis reads body bytes are dropped and counted (dropped_opaque_reads; none on the "
             "unchanged tree)",
     assumptions=["a well-formed tag head followed by a body parses to Tag(number, parse(body)); reserved "
                  "additional information 28..30 and indefinite-length integers/tags are syntax errors (RFC 8949 "
                  "section 3) -- this is the reference reading of the head bytes that the parser stub implements"])
prop("C20", "Canonicalising a key sorts its encoding and changes nothing else",
     mirsym={"jobs": _jl("c20"), "budget_s": {"quick": 900, "thorough": 3000}, "need_both": False},
     bounds={"quick": "keys with every subset of {kid, alg, key_ops, base IV} and 2 extra parameters with arbitrary "
                      "labels (any i64 outside 1..5, UTF-8 text <= 2 bytes), both orderings",
             "thorough": "3 extra parameters"},
     outside="more parameters; text labels of 24 bytes or more",
     assumptions=["serialiser stub for a single integer / short text = RFC 8949 shortest-form bytes (needed by "
                  "Label::cmp_canonical)"])

prop("C01", "Untrusted bytes never crash decoding or the processing that follows it",
     mirsym={"jobs": _jl("c01"), "budget_s": {"quick": 900, "thorough": 3000}, "need_both": False,
             "only_classes": ("panic", "depth", "nesting", "crash"), "std_config": True},
     bounds={"quick": "all byte-level entry points (from_slice, from_tagged_slice, protected bstr) of 15 types "
                      "with the nondeterministic parser stub over inputs within: arrays of the type's arity + 1, "
                      "nested arrays <= 3, 1 map entry in total, depth 4 (text <= 4 bytes of any UTF-8 in headers); follow-ups on every accepted value: "
                      "to_cbor_value, re-decode, tbs/verify/MAC/decrypt helpers with arbitrary AAD / detached "
                      "payload; nesting spine counter-signature -> protected header explored to 8 levels "
                      "symbolically and replayed natively at 2000 levels on a 2 MiB thread; spines of 1..12 "
                      "levels through protected / unprotected headers in bare / list form are never accepted "
                      "beyond the crate's documented MAX_COUNTER_SIGNATURE_DEPTH",
             "thorough": "3 map entries in total, depth 5, spine to 64 levels (16 for the four-variant spines)"},
     outside="ciborium's own totality, recursion limit and allocation behaviour; running time and memory; "
             "Debug/Display output; Clone/PartialEq of decoded values (derived impls, not executed)",
     assumptions=["the `std` feature changes no function body: checked on each run by comparing the MIR dumps "
                  "built with and without it"])

prop("C19", "Builders apply exactly the documented effect of each call, in any order",
     kani={"quick": ["c19_"], "thorough": ["c19x_"], "timeout": {"quick": 500, "thorough": 1800}, "jobs": 8},
     mirsym={"jobs": _jl("c19"), "budget_s": {"quick": 900, "thorough": 3000}, "need_both": False},
     bounds={"quick": "Kani (compiled code): every sequence of 3 field-setter calls per builder (setter chosen "
                      "symbolically per step), adders at fixed positions, the five key constructors, byte vectors "
                      "of length 0..2, labels: all i64, Value arguments from a leaf palette, reserved-label guards "
                      "over every i64 label; mirsym (MIR): every sequence of 3 calls over ALL public setters and "
                      "adders of the 14 builders with the method chosen symbolically at every step, byte strings "
                      "empty or of symbolic length, labels and integers: all i64 / u64, registry arguments: every "
                      "registered value; private fields of COSE_KDF_Context compared directly; the create / "
                      "try-create helpers of the seven message builders after every history of <= 2 calls "
                      "(creator called once with the RFC structure of the current state -- every context for "
                      "recipients --, output stored, error returned unchanged, documented refusals panic)",
             "thorough": "sequences of 4 calls; create helpers after histories of <= 3 calls"},
     outside="longer sequences; what a verifier later sees of the created value is C06's check", assumptions=[])

NOT_APPLICABLE = {}
