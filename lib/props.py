"""Registry: which engine jobs decide which property, with bounds and assumptions per tier."""

KANI_ASSUMPTIONS = [
    "Kani 0.68 / CBMC 6.11 model of rustc MIR and of the standard library (dev profile, "
    "overflow checks on); unwinding assertions enabled, so a too-small loop bound fails the run",
    "stub: alloc::fmt::format -> String::new() (error-message text is never observed)",
    "stub: Result::unwrap / Result::expect -> Debug-free twins with identical panic behaviour",
]

WRITER_ASSUMPTION = (
    "stub: ciborium::ser::into_writer replaced (capture stub / reference head encoder): ciborium's "
    "serde byte layer is outside what CBMC can execute; the claim covers the Value tree coset hands "
    "to the serialiser, and assumes ciborium serialises that tree in RFC 8949 shortest definite form")

PROPS = {}


def prop(pid, title, **kw):
    kw["title"] = title
    PROPS[pid] = kw


prop("C16", "Label ordering is a total order equal to CBOR's deterministic key ordering",
     kani={"quick": ["c16_"], "thorough": ["c16x_"], "timeout": {"quick": 400, "thorough": 1800},
           "jobs": 8},
     bounds={
         "quick": "integer labels: all 2^64 values per operand (pairs and triples); text labels: "
                  "all ASCII strings of length <= 3 (pairs) / <= 2 (mixed triples, registry labels); "
                  "registry variants: every enum value reachable through from_i64(any i64), private "
                  "values any i64 < -65536",
         "thorough": "as quick, plus text length <= 4 and multi-byte UTF-8 contents",
     },
     outside="text labels longer than the stated bound (length classes 23/24/255/256 are decided by "
             "mirsym where registered); cmp_canonical relies on the serialiser stub",
     assumptions=[])


def _jl(name):
    def f(tier):
        import joblists
        return getattr(joblists, name)(tier)
    return f


prop("C09", "Message structures: accepted iff they match their CDDL, slots map to fields",
     mirsym={"jobs": _jl("c09"), "budget_s": {"quick": 300, "thorough": 2400}},
     bounds={
         "quick": "top-level arrays of arity 0..6 with every CBOR kind in every slot; nested arrays "
                  "bounded by a total of 10 array elements per input (one nested signature/recipient); "
                  "header maps with at most 1 entry in total per input (C08 explores headers); nesting "
                  "depth 4; integers: all of [-2^64, 2^64-1]; byte strings: symbolic 64-bit length",
         "thorough": "arity 0..7, 14 array elements and 2 map entries per input, depth 5, text <= 2",
     },
     outside="longer nested lists and larger header maps than the stated budgets; bytes inside "
             "protected headers are related to their parse only through the parser stub",
     assumptions=[])

NOT_APPLICABLE = {}
