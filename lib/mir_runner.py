"""Engine M orchestration: regenerate the MIR dump from /repo, validate the interpreter against the
native build, run the property's jobs on a process pool (sharded path exploration), replay every
solver-produced counterexample natively, and hand the totals to the driver."""
import json
import multiprocessing as mp
import os
import shutil
import sys
import time

from common import CACHE, REPO, VERIF, Finding, log, seed

MIRSYM = os.path.join(VERIF, "mirsym")
sys.path.insert(0, MIRSYM)

ASSUMPTIONS = [
    "mirsym: own symbolic interpreter for rustc's MIR text dump of coset (regenerated from /repo on "
    "this run); models of ~90 core/alloc/ciborium callees written from their documentation; validated "
    "on this run by concrete execution of the repo's own test vectors against the native build",
    "stub: ciborium::de::from_reader = nondeterministic functional parser (Err(any kind) | Ok(any "
    "Value) consuming k <= len bytes; same bytes -> same outcome; bytes written by the serialiser stub "
    "on the same path parse back to the tree that was written)",
    "stub: ciborium::ser::into_writer = records the Value tree it is handed and yields an opaque "
    "non-empty byte string standing for its deterministic encoding",
    "byte strings are opaque sequences of symbolic 64-bit length unless stated; text has the stated "
    "concrete lengths with symbolic bytes constrained to well-formed UTF-8 (every sequence up to 3 bytes; "
    "ASCII beyond)",
]

_ENGINE = None
_TABLES = None


def _worker_init(mir_path, repo):
    global _ENGINE, _TABLES
    sys.path.insert(0, MIRSYM)
    from loader import load_engine
    import refdec
    _ENGINE = load_engine(mir_path, repo)
    _TABLES = refdec.load_tables()


def _worker_run(task):
    import importlib
    modname, fname, kwargs = task
    t0 = time.time()
    try:
        mod = importlib.import_module(modname)
        fn = getattr(mod, fname)
        from interp import Stats
        _ENGINE.stats = Stats()
        job = fn(_ENGINE, _TABLES, **kwargs)
        d = job.as_dict()
        st = _ENGINE.stats
        d["stats"] = {"paths": st.paths, "forks": st.forks, "queries": st.queries,
                      "solver_s": round(st.solver_s, 3), "steps": st.steps,
                      "functions": sorted(st.functions)}
    except Exception as e:  # engine failure is reported, never swallowed
        import traceback
        d = {"name": "%s.%s%r" % (modname, fname, kwargs.get("tname", "")), "paths": 0, "accepting": 0,
             "rejecting": 0, "panics": 0, "findings": [], "samples": [],
             "incomplete": ["engine error: %s: %s" % (type(e).__name__, e)],
             "wall_s": time.time() - t0, "extra": {"traceback": traceback.format_exc()[-2000:]},
             "stats": {"paths": 0, "forks": 0, "queries": 0, "solver_s": 0, "steps": 0, "functions": []}}
    return d


def prepare(tag="main"):
    """MIR dump + replayer build + translator validation. Returns dict(paths...)."""
    from loader import dump_mir, load_engine
    from native import Native, build_replayer
    work = os.path.join(CACHE, "mir-" + tag)
    t0 = time.time()
    mir_path, dump_s = dump_mir(REPO, work)
    binary = build_replayer(REPO)
    return {"mir": mir_path, "replayer": binary, "dump_s": dump_s, "prep_s": time.time() - t0}


def translator_validation(prep, limit=None):
    from loader import load_engine
    from native import Native
    import validate
    eng = load_engine(prep["mir"], REPO)
    nat = Native(prep["replayer"])
    try:
        r = validate.validate(eng, nat, REPO, limit=limit)
    finally:
        nat.close()
    return r


def run_jobs(prop, mspec, tr):
    """mspec: {'jobs': callable(tier) -> [(module, function, kwargs)], 'budget_s': {...}}"""
    t0 = time.time()
    out = {"summary": {}, "paths": 0, "forks": 0, "queries": 0, "solver_s": 0.0, "validated": 0,
           "functions": [], "samples": [], "findings": [], "inconclusive": [],
           "assumptions": list(ASSUMPTIONS) + list(mspec.get("assumptions", []))}
    try:
        prep = prepare(prop.lower())
    except Exception as e:
        out["inconclusive"].append("mirsym preparation failed: %s" % e)
        return out
    out["summary"]["mir_dump_s"] = round(prep["dump_s"], 1)
    # ---- translator validation: the engine must agree with the native build first -----------
    try:
        tv = translator_validation(prep, limit=mspec.get("tv_limit", {}).get(tr))
    except Exception as e:
        out["inconclusive"].append("translator validation could not run: %s" % e)
        return out
    out["summary"]["translator_validation"] = {k: v for k, v in tv.items() if k != "bad"}
    out["validated"] += tv["checked"]
    if tv["disagreements"]:
        out["inconclusive"].append("translator validation: %d disagreements between the MIR interpreter and the "
                                   "native build, e.g. %r" % (tv["disagreements"], tv["bad"][:2]))
        return out
    # ---- jobs -----------------------------------------------------------------------------------
    budget = mspec.get("budget_s", {}).get(tr, 240 if tr == "quick" else 1500)
    if os.environ.get("VERIF_BUDGET_S"):
        budget = int(os.environ["VERIF_BUDGET_S"])          # explicit override of the tier's time budget
    expand_n = mspec.get("expand_paths", 60)
    chunk = mspec.get("chunk", 4)
    slice_s = mspec.get("slice_s", 12)
    from collections import deque

    def explore(joblist, deadline):
        """run one job list on the worker pool until it is done or the deadline has passed"""
        tasks = []
        for modname, fname, kwargs in joblist:
            kw = dict(kwargs)
            kw["deadline"] = deadline
            tasks.append((modname, fname, kw))
        results = []
        queue = deque((m, f, dict(kw, bfs=True, max_paths=expand_n)) for m, f, kw in tasks)
        inflight = []
        with mp.get_context("fork").Pool(16, initializer=_worker_init, initargs=(prep["mir"], REPO)) as pool:
            # Work list scheduling: every task explores for at most `slice_s` seconds and returns the
            # sub-trees it did not reach; those are re-queued in small chunks (dynamic balancing).
            while queue or inflight:
                while queue and len(inflight) < 16:
                    t = queue.popleft()
                    inflight.append((t, pool.apply_async(_worker_run, (t,))))
                still = []
                progressed = False
                for t, ar in inflight:
                    if not ar.ready():
                        still.append((t, ar))
                        continue
                    progressed = True
                    d = ar.get()
                    fr = d.get("extra", {}).pop("frontier", None) or []
                    results.append(d)
                    m, f, kw = t
                    kw2 = {k: v for k, v in kw.items() if k not in ("bfs", "max_paths", "initial")}
                    if time.time() < deadline:
                        for i in range(0, len(fr), chunk):
                            queue.append((m, f, dict(kw2, initial=fr[i:i + chunk], slice_s=slice_s)))
                    elif fr:
                        d["incomplete"].append("time budget exhausted with %d unexplored sub-trees" % len(fr))
                inflight = still
                if not progressed:
                    time.sleep(0.05)
        return merge_by_name(results)

    if tr == "quick":
        results = explore(mspec["jobs"]("quick"), time.time() + budget)
    else:
        # thorough = the quick job list in full (that is the claim, it must complete), then the
        # deeper job list for the rest of the budget.  A deeper job that does not finish in time is
        # reported as partially explored (paths, no violation) and is NOT claimed; it does not turn
        # the verdict on what was explored into "inconclusive".
        quick_jobs = mspec["jobs"]("quick")
        qbudget = mspec.get("budget_s", {}).get("quick", 900)
        results = explore(quick_jobs, time.time() + qbudget)
        deeper = [j for j in mspec["jobs"]("thorough") if j not in quick_jobs]
        remaining = budget - (time.time() - t0)
        partial = []
        if deeper and remaining > 60:
            deep = explore(deeper, time.time() + remaining)
            for d in deep:
                d["name"] += " [thorough]"
                timeouts = [i for i in d["incomplete"] if i.startswith("timeout after") or i.startswith("time budget exhausted")]
                if timeouts:
                    d["incomplete"] = [i for i in d["incomplete"] if i not in timeouts]
                    d.setdefault("extra", {})["partial"] = timeouts[:3]
                    partial.append(d["name"])
            results += deep
        elif deeper:
            partial = ["(deeper job list not started: %d s left)" % int(remaining)]
        out["summary"]["thorough_not_completed"] = partial
    # ---- aggregate -----------------------------------------------------------------------------
    funcs = set()
    jobs_summary = []
    raw_findings = []
    for d in sorted(results, key=lambda x: x["name"]):
        st = d["stats"]
        out["paths"] += st["paths"]
        out["forks"] += st["forks"]
        out["queries"] += st["queries"]
        out["solver_s"] += st["solver_s"]
        funcs.update(st["functions"])
        jobs_summary.append({"job": d["name"], "paths": d["paths"], "accepting": d["accepting"],
                             "rejecting": d["rejecting"], "panics": d["panics"],
                             "findings": len(d["findings"]), "wall_s": d["wall_s"],
                             "extra": {k: v for k, v in d.get("extra", {}).items() if k != "traceback"}})
        for s in d["samples"][:2]:
            out["samples"].append(dict(s, job=d["name"]))
        for inc in d["incomplete"]:
            out["inconclusive"].append("%s: %s" % (d["name"], inc))
            if "traceback" in d.get("extra", {}):
                log(d["extra"]["traceback"])
        raw_findings += d["findings"]
    out["functions"] = ["mir:" + f for f in sorted(funcs)]
    out["summary"]["jobs"] = jobs_summary
    out["summary"]["wall_s"] = round(time.time() - t0, 1)
    # vacuity guard: a decode job must have seen both accepting and rejecting leaves
    for j in jobs_summary:
        need = mspec.get("need_both", True)
        if need and j["job"].startswith("decode:") and (j["accepting"] == 0 or j["rejecting"] == 0) \
                and "partial" not in j.get("extra", {}):
            out["inconclusive"].append("%s: vacuous exploration (accepting=%d rejecting=%d)"
                                       % (j["job"], j["accepting"], j["rejecting"]))
    only = mspec.get("only_classes")
    if only:
        raw_findings = [f for f in raw_findings if any((":" + c) in f["key"] for c in only)]
    if mspec.get("std_config"):
        try:
            same, note = std_config_same(prop, prep)
            out["summary"]["std_feature"] = note
            if not same:
                out["inconclusive"].append("the `std` feature changes function bodies: " + note)
        except Exception as e:
            out["inconclusive"].append("std configuration could not be compared: %s" % e)
    # ---- native replay of every counterexample ------------------------------------------------
    out["findings"], nvalid = replay_findings(prop, prep, raw_findings)
    out["validated"] += nvalid
    return out


def std_config_same(prop, prep):
    """Configurations quantifier of C01: dump the MIR again with `--features std` and compare every
    function body with the no-std dump."""
    from loader import dump_mir
    import re
    work = os.path.join(CACHE, "mir-" + prop.lower())
    std_path, _ = dump_mir(REPO, work, features="std")

    def bodies(path):
        txt = open(path).read()
        txt = re.sub(r"alloc\d+", "allocN", txt)
        # `panic!("literal")` lowers to std::rt::begin_panic with std and to core::panicking::panic
        # without: the same diverging call, the only expected textual difference
        txt = txt.replace("std::rt::begin_panic::<&str>(", "panic(")
        parts = re.split(r"\n(?=fn |const |static )", txt)
        return {p.split("{", 1)[0].strip(): p for p in parts if p.startswith(("fn ", "const ", "static "))}
    a, b = bodies(prep["mir"]), bodies(std_path)
    norm = lambda k: re.sub(r"(std|core|alloc)::", "", k)
    an = {norm(k): re.sub(r"(std|core|alloc)::", "", v) for k, v in a.items()}
    bn = {norm(k): re.sub(r"(std|core|alloc)::", "", v) for k, v in b.items()}
    only_std = sorted(set(bn) - set(an))
    only_nostd = sorted(set(an) - set(bn))
    differ = sorted(k for k in set(an) & set(bn) if an[k] != bn[k])
    note = "%d functions compared; only with std: %s; only without: %s; differing bodies: %s" % (
        len(set(an) & set(bn)), only_std[:3], only_nostd[:3], differ[:3])
    return (not differ and not only_nostd), note


def merge_by_name(results):
    merged = {}
    for d in results:
        m = merged.get(d["name"])
        if m is None:
            merged[d["name"]] = d
            continue
        for k in ("paths", "accepting", "rejecting", "panics", "wall_s"):
            m[k] += d[k]
        m["findings"] += d["findings"]
        m["samples"] = (m["samples"] + d["samples"])[:4]
        m["incomplete"] += d["incomplete"]
        for k in ("paths", "forks", "queries", "solver_s", "steps"):
            m["stats"][k] += d["stats"][k]
        m["stats"]["functions"] = sorted(set(m["stats"]["functions"]) | set(d["stats"]["functions"]))
        fc = m.setdefault("extra", {}).setdefault("finding_counts", {})
        for k, v in d.get("extra", {}).get("finding_counts", {}).items():
            fc[k] = fc.get(k, 0) + v
        if "traceback" in d.get("extra", {}):
            m["extra"]["traceback"] = d["extra"]["traceback"]
    return list(merged.values())


def replay_findings(prop, prep, raw):
    from native import Native
    import concrete
    findings = []
    if not raw:
        return findings, 0
    nat = Native(prep["replayer"])
    rdir = os.path.join(CACHE, "replay", prop.lower())
    os.makedirs(rdir, exist_ok=True)
    n = 0
    per_key = {}
    try:
        for i, rec in enumerate(raw):
            per_key[rec["key"]] = per_key.get(rec["key"], 0) + 1
            if per_key[rec["key"]] > 2:
                continue
            # a finding may carry several concretisations of the same abstract input (e.g. different
            # trailing bytes): it is reproduced if the native build misbehaves on any of them
            native_out, ok = "", False
            for cmd in (rec.get("commands") or [rec_command(rec)]):
                native_out = concrete.normalize_native(nat.ask(cmd))
                n += 1
                if reproduces(rec, native_out):
                    ok = True
                    rec["command"] = cmd
                    break
            rec["native"] = native_out
            rec["reproduced"] = ok
            path = os.path.join(rdir, "%s-%d.json" % (rec["key"].replace(":", "_").replace("/", "_")[:80], i))
            with open(path, "w") as f:
                json.dump(rec, f, indent=1, default=str)
            findings.append(Finding(prop, rec["key"], rec["what"], path, rec["reproduced"],
                                    detail={"input_hex": rec.get("input_hex"), "native": native_out[:400],
                                            "predicted": (rec.get("predicted") or "")[:400]}))
    finally:
        nat.close()
    return findings, n


def rec_command(rec):
    if rec.get("command"):
        return rec["command"]
    return "%s %s %s" % (rec["op"], rec["type"], rec["input_hex"] or "-")


def reproduces(rec, native_out):
    """The native build must behave as the engine predicted (then the disagreement with the
    reference is real)."""
    pred = rec.get("predicted")
    if pred is None:
        return False
    if pred == "PANIC":
        return native_out.startswith("PANIC") or native_out.startswith("CRASH")
    if rec.get("compare") == "prefix":
        return native_out.split(" ")[0] == pred.split(" ")[0]
    if rec.get("compare") == "startswith":
        if pred == "OK eq=true fixed=false":
            return native_out.startswith("OK eq=true fixed=false")
        return native_out.startswith(pred)
    return native_out == pred


def replay_file(path):
    from native import Native, build_replayer
    import concrete
    rec = json.load(open(path))
    nat = Native(build_replayer(REPO))
    try:
        out = concrete.normalize_native(nat.ask(rec_command(rec)))
    finally:
        nat.close()
    print("command :", rec_command(rec))
    print("what    :", rec.get("what"))
    print("predicted by the engine :", rec.get("predicted"))
    print("native outcome          :", out)
    ok = reproduces(rec, out)
    print("REPRODUCED" if ok else "NOT REPRODUCED")
    return 1 if ok else 0
